#!/bin/sh
# usage: tools/mkenv.sh N   -> a private copy of the harness at /tmp/veN working against /tmp/veN-repo
# (a detached git worktree of /repo), so that seeded changes can be evaluated without touching /repo.
set -e
N=$1
R=/tmp/ve$N; RR=/tmp/ve$N-repo
rm -rf $R; git -C /repo worktree remove --force $RR 2>/dev/null || true; rm -rf $RR
git -C /repo worktree add -q --detach $RR HEAD
cp /repo/Cargo.lock $RR/Cargo.lock
mkdir -p $R
cp -r /verif/harness /verif/corpus /verif/known_findings.json /verif/vcheck /verif/tools /verif/properties.jsonl $R/
mkdir -p $R/work $R/evidence
grep -rlE "/verif|/repo" $R --include='*' -I 2>/dev/null | while read f; do sed -i "s#/verif#$R#g; s#/repo#$RR#g" "$f"; done
echo "env $N ready: $R against $RR"
