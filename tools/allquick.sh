#!/bin/sh
# usage: tools/allquick.sh SEED  -> run every quick check with VERIF_SEED=SEED, print one line each
export VERIF_SEED=$1
cd /verif
for p in C01 C02 C03 C04 C05 C06 C07 C08 C09 C10 C11 C12 C13 C14 C15 C16 C17 C18 C19; do
  out=$(./vcheck $p --tier quick 2>&1); code=$?
  echo "seed=$1 $p exit=$code $(echo "$out" | grep -E '^OK|^VIOLATION|INFRA|HARNESS' | head -1 | cut -c1-140)"
  [ $code -ne 0 ] && echo "$out" | grep -E "subject:|reason" | head -4 | cut -c1-300
done
