#!/bin/sh
# usage: tools/mutcheck.sh <patch.diff> <Cxx> [<Cyy> ...]
# Applies a patch to /repo, runs the given quick checks, and always restores /repo.
patch="$1"; shift
git -C /repo apply "$patch" || { echo "patch does not apply"; exit 3; }
trap 'git -C /repo checkout -- . ; git -C /repo clean -fdq -e Cargo.lock -e target ; [ -c /dev/full ] || (rm -f /dev/full; mknod -m 666 /dev/full c 1 7)' EXIT
for p in "$@"; do
  out=$(/verif/vcheck "$p" --tier quick 2>&1); code=$?
  echo "== $p exit=$code :: $(echo "$out" | grep -E 'VIOLATION|OK property|INFRA' | head -1 | cut -c1-160)"
  echo "$out" | grep -E "reason:" | head -2 | cut -c1-300
done
