#!/usr/bin/env python3
"""reeval.py <id> <Cxx>... : re-run the given quick checks for a seeded patch (in /repo, restored afterwards)
and merge the outcome into /verif/work/seed/<id>.eval.json (entries marked "final_harness": true)."""
import json, os, sys, subprocess
sid, checks = sys.argv[1], sys.argv[2:]
c, n = sid.split('r')[0] if 'r' in sid else sid.split('-')[0], sid.split('-')[-1]
wt = os.environ.get("SEED_WT", "/tmp/wt-")
patch = f"{wt}{c}/out/patch{n}.diff"
out = subprocess.run(["python3", "/verif/tools/seedtool.py", "eval", patch] + checks, capture_output=True, text=True).stdout
new = json.loads(out)
p = f"/verif/work/seed/{sid}.eval.json"
old = json.load(open(p)) if os.path.exists(p) else {}
for k, v in new.items():
    if isinstance(v, dict):
        v["final_harness"] = True
    old[k] = v
json.dump(old, open(p, "w"), indent=1)
print(sid, {k: v.get("exit") for k, v in new.items() if isinstance(v, dict)})
