#!/usr/bin/env python3
"""Helpers for the seeded-change campaign.

  seedtool.py verify Cxx n        verify patch n of /tmp/wt-Cxx/out in that worktree:
                                  demo passes without the patch, suite passes with it, demo fails with it
  seedtool.py eval <patch> [Cxx..] apply to /repo, run quick checks (default: all 19), restore /repo
  seedtool.py keep Cxx n          copy patch/demo/meta to /verif/seeded/<Cxx>-<n>/ (after verify + eval)
"""
import json, os, subprocess, sys, shutil, re, time

ENV = dict(os.environ, CARGO_NET_OFFLINE="true")
# evaluation environment: the real one by default, or a private copy made by tools/mkenv.sh
VE_ROOT = os.environ.get("VE_ROOT", "/verif")
VE_REPO = os.environ.get("VE_REPO", "/repo")
ALL = [f"C{i:02d}" for i in range(1, 20)]


def sh(cmd, cwd=None, timeout=3600):
    p = subprocess.run(cmd, shell=True, cwd=cwd, env=ENV, stdout=subprocess.PIPE, stderr=subprocess.STDOUT, text=True, timeout=timeout)
    return p.returncode, p.stdout


def suite(wt, cfg=""):
    code, out = sh(f"cargo test --workspace --no-fail-fast --offline{cfg} 2>&1", cwd=wt)
    passed = sum(int(m.group(1)) for m in re.finditer(r"test result: \w+\. (\d+) passed", out))
    failed = sum(int(m.group(1)) for m in re.finditer(r"test result: \w+\. \d+ passed; (\d+) failed", out))
    return code, passed, failed, out


WT_PREFIX = os.environ.get("SEED_WT", "/tmp/wt-")
ID_SUFFIX = os.environ.get("SEED_SUFFIX", "")


def verify(cid, n):
    wt = f"{WT_PREFIX}{cid}"
    out = f"{wt}/out"
    patch = f"{out}/patch{n}.diff"
    demo = f"{out}/demo{n}.rs"
    res = {"id": f"{cid}{ID_SUFFIX}-{n}", "patch": patch, "demo": demo}
    metas = json.load(open(f"{out}/meta.json"))
    if isinstance(metas, dict):
        metas = [metas]
    m = next((x for x in metas if str(x.get("patch", "")).endswith(f"patch{n}.diff")), {})
    derive = bool(m.get("needs_derive_patch")) or "epserde-derive/" in open(patch).read()
    cfg = f""" --config 'patch.crates-io.epserde-derive.path="{wt}/epserde-derive"'""" if derive else ""
    res["derive_patch_flag"] = derive
    if derive:
        shutil.copy(f"{wt}/Cargo.lock", f"{wt}/Cargo.lock.bak")
    sh("git checkout -- . ", cwd=wt)
    crate_demo = os.path.isdir(f"{out}/demo{n}_crate")
    tname = f"zz_seed_demo_{cid.lower()}_{n}"
    tfile = f"{wt}/epserde/tests/{tname}.rs"

    def run_demo():
        if crate_demo:
            return sh("cargo run --offline 2>&1", cwd=f"{out}/demo{n}_crate")
        shutil.copy(demo, tfile)
        c, o = sh(f"cargo test -p epserde --test {tname} --offline{cfg} 2>&1", cwd=wt)
        os.remove(tfile)
        return c, o[-3000:]

    c0, o0 = run_demo()
    res["demo_without_patch"] = "pass" if c0 == 0 else "FAIL"
    if c0 != 0:
        res["demo_without_patch_output"] = o0[-1500:]
    c, o = sh(f"git apply {patch}", cwd=wt)
    if c != 0:
        res["apply"] = "FAILED: " + o
        return res
    res["files_changed"] = sh("git diff --stat | tail -1", cwd=wt)[1].strip()
    sc, p, f, so = suite(wt, cfg)
    res["suite_with_patch"] = {"passed": p, "failed": f, "exit": sc}
    c1, o1 = run_demo()
    res["demo_with_patch"] = "fail" if c1 != 0 else "PASSES (bad)"
    res["demo_with_patch_tail"] = o1[-600:]
    sh("git checkout -- . ", cwd=wt)
    if derive:
        shutil.copy(f"{wt}/Cargo.lock.bak", f"{wt}/Cargo.lock")
    res["valid"] = (c0 == 0 and c1 != 0 and f == 0 and p >= 84 and sc == 0)
    return res


def evaluate(patch, checks):
    c, o = sh(f"git -C {VE_REPO} apply {patch}")
    if c != 0:
        return {"error": "patch does not apply: " + o}
    res = {}
    try:
        for ck in checks:
            t = time.time()
            c, o = sh(f"{VE_ROOT}/vcheck {ck} --tier quick 2>&1", cwd=VE_ROOT)
            line = next((l for l in o.splitlines() if l.startswith("VIOLATION") or l.startswith("OK property") or l.startswith("INFRA")), o[-200:])
            reason = next((l.strip() for l in o.splitlines() if l.strip().startswith("reason:")), "")
            res[ck] = {"exit": c, "line": line[:200], "reason": reason[:400], "wall_s": round(time.time() - t, 1)}
    finally:
        sh(f"git -C {VE_REPO} checkout -- .")
        sh(f"git -C {VE_REPO} clean -fdq -e Cargo.lock -e target")
        # a change that renames a temporary over the destination can replace the /dev/full node (we run as root)
        sh("[ -c /dev/full ] || (rm -f /dev/full; mknod -m 666 /dev/full c 1 7)")
    return res


def main():
    cmd = sys.argv[1]
    if cmd == "verify":
        print(json.dumps(verify(sys.argv[2], sys.argv[3]), indent=1))
    elif cmd == "eval":
        checks = sys.argv[3:] or ALL
        print(json.dumps(evaluate(sys.argv[2], checks), indent=1))
    elif cmd == "keep":
        cid, n = sys.argv[2], sys.argv[3]
        d = f"/verif/seeded/{cid}{ID_SUFFIX}-{n}"
        os.makedirs(d, exist_ok=True)
        out = f"{WT_PREFIX}{cid}/out"
        shutil.copy(f"{out}/patch{n}.diff", f"{d}/patch.diff")
        if os.path.exists(f"{out}/demo{n}.rs"):
            shutil.copy(f"{out}/demo{n}.rs", f"{d}/demo.rs")
        if os.path.isdir(f"{out}/demo{n}_crate"):
            shutil.copytree(f"{out}/demo{n}_crate", f"{d}/demo_crate", dirs_exist_ok=True, ignore=shutil.ignore_patterns("target"))
        metas = json.load(open(f"{out}/meta.json"))
        if isinstance(metas, dict):
            metas = [metas]
        m = next((x for x in metas if str(x.get("patch", "")).endswith(f"patch{n}.diff")), metas[min(int(n) - 1, len(metas) - 1)])
        meta = {"property": cid, "agent_meta": m}
        for extra in ("verify", "eval"):
            p = f"/verif/work/seed/{cid}{ID_SUFFIX}-{n}.{extra}.json"
            if os.path.exists(p):
                meta[extra] = json.load(open(p))
        json.dump(meta, open(f"{d}/meta.json", "w"), indent=1)
        print("kept", d)


if __name__ == "__main__":
    main()
