#!/bin/sh
# usage: tools/allthorough.sh SEED [Cxx...] -> run thorough checks, one summary line each (with wall time)
export VERIF_SEED=$1; shift
cd /verif
PROPS=${*:-C01 C02 C03 C04 C05 C06 C07 C08 C09 C10 C11 C12 C13 C14 C15 C16 C17 C18 C19}
for p in $PROPS; do
  t0=$(date +%s)
  out=$(./vcheck $p --tier thorough 2>&1); code=$?
  t1=$(date +%s)
  echo "seed=$VERIF_SEED $p exit=$code wall=$((t1-t0))s $(echo "$out" | grep -E '^OK|^VIOLATION|INFRA|HARNESS' | head -1 | cut -c1-140)"
  [ $code -ne 0 ] && echo "$out" | grep -E "subject:|reason|INFRA" | head -6 | cut -c1-400
  echo "$out" | grep -E "^KNOWN-FINDING" | cut -c1-80
done
echo THOROUGHDONE
