#!/bin/sh
# usage: tools/eval_env_sel.sh N id...   evaluate seeded patches in environment N against their own property's
# check plus a fixed selection (C01 C02 C05 C06 C08), instead of all 19
N=$1; shift
export VE_ROOT=/tmp/ve$N VE_REPO=/tmp/ve$N-repo
for id in "$@"; do
  c=${id%%[-r]*}; n=${id##*-}
  [ -s /verif/work/seed/$id.eval.json ] && continue
  sel=$(printf "%s\n" $c C01 C02 C05 C06 C08 | sort -u | tr '\n' ' ')
  python3 /verif/tools/seedtool.py eval ${SEED_WT:-/tmp/wt-}$c/out/patch$n.diff $sel > /verif/work/seed/$id.eval.json 2>/verif/work/seed/$id.eval.err
  python3 - "$id" <<'PY'
import json,sys
i=sys.argv[1]
try:
    r=json.load(open(f'/verif/work/seed/{i}.eval.json'))
    print(i, 'caught by:', [k for k,v in r.items() if isinstance(v,dict) and v.get('exit')==1], 'infra:', [k for k,v in r.items() if isinstance(v,dict) and v.get('exit') not in (0,1)], flush=True)
except Exception as e:
    print(i, 'ERR', e, flush=True)
PY
done
echo ALLDONE
