//! Coverage-guided tier (libFuzzer through cargo-fuzz, AddressSanitizer): `fz_subjects` over a slice of the
//! fixed universe with the semantic oracles in-target, `fz_cursor` for C19.

use crate::{build, Opts, HARNESS, WORK};
use serde_json::{json, Value};
use std::process::Command;

pub const FUZZ_PROPS: [&str; 8] = ["C01", "C02", "C03", "C06", "C07", "C11", "C12", "C15"];

/// Render the fuzz universe: every 4th subject of the fixed universe plus all of the zst universe's.
pub fn prepare() -> Result<(), String> {
    let mut u = build::fixed_universe();
    let keep: Vec<_> = u.subjects.iter().cloned().enumerate().filter(|(i, _)| i % 4 == 0).map(|(_, t)| t).collect();
    u.subjects = keep;
    u.label = "fuzz".into();
    u.pairs.clear();
    let dir = format!("{}/fuzz", WORK);
    std::fs::create_dir_all(&dir).map_err(|e| e.to_string())?;
    let src = vmodel::render::program(&u);
    let p = format!("{}/uni.rs", dir);
    if std::fs::read_to_string(&p).ok().as_deref() != Some(&src) {
        std::fs::write(&p, src).map_err(|e| e.to_string())?;
    }
    std::fs::write(format!("{}/universe.json", dir), serde_json::to_string(&u).unwrap()).map_err(|e| e.to_string())?;
    let lock = format!("{}/fuzz/Cargo.lock", HARNESS);
    if !std::path::Path::new(&lock).exists() {
        std::fs::copy(format!("{}/Cargo.lock", HARNESS), &lock).map_err(|e| e.to_string())?;
    }
    Ok(())
}

fn cargo_fuzz(args: &[&str]) -> Command {
    let mut c = Command::new("cargo");
    c.arg("+nightly").arg("fuzz");
    for a in args {
        c.arg(a);
    }
    c.current_dir(HARNESS).env("CARGO_NET_OFFLINE", "true").env("CARGO_TARGET_DIR", format!("{}/target-fuzz", WORK)).env("RUSTFLAGS", "--cfg epserde_verif");
    c
}

pub fn build_target(target: &str) -> Result<(), String> {
    prepare()?;
    let out = cargo_fuzz(&["build", target, "--fuzz-dir", "fuzz"]).output().map_err(|e| e.to_string())?;
    if !out.status.success() {
        let e = String::from_utf8_lossy(&out.stderr);
        return Err(format!("cargo fuzz build {} failed: {}", target, e.lines().rev().take(25).collect::<Vec<_>>().into_iter().rev().collect::<Vec<_>>().join("\n")));
    }
    Ok(())
}

/// Run a campaign; returns a report-like JSON (evaluations = executions, failures from crashes).
pub fn campaign(target: &str, prop: &str, opts: &Opts, runs: u64) -> Result<Value, String> {
    build_target(target)?;
    let corpus = format!("{}/fuzz-corpus/{}-{}", WORK, target, prop);
    let _ = std::fs::remove_dir_all(&corpus);
    std::fs::create_dir_all(&corpus).map_err(|e| e.to_string())?;
    // a small deterministic starting corpus: libFuzzer ramps up input length slowly from nothing
    let mut x = vmodel::mix_seed(&["fuzz-corpus", target, prop], opts.seed);
    for i in 0..48 {
        let n = 8 + (i % 12) * 24;
        let bytes: Vec<u8> = (0..n)
            .map(|_| {
                x = vmodel::mix_seed(&[], x);
                (x >> 24) as u8
            })
            .collect();
        std::fs::write(format!("{}/seed{:02}", corpus, i), bytes).ok();
    }
    let artifacts = format!("{}/fuzz-artifacts/{}-{}/", WORK, target, prop);
    let _ = std::fs::remove_dir_all(&artifacts);
    std::fs::create_dir_all(&artifacts).ok();
    let mut c = cargo_fuzz(&["run", target, "--fuzz-dir", "fuzz", &corpus, "--"]);
    c.arg(format!("-runs={}", runs)).arg(format!("-seed={}", (opts.seed % 0xffff_fff0) + 1)).arg("-len_control=0").arg("-max_len=512").arg("-timeout=60").arg("-rss_limit_mb=4096").arg(format!("-artifact_prefix={}", artifacts)).arg("-print_final_stats=1");
    c.env("VERIF_FUZZ_PROP", prop).env("ASAN_OPTIONS", "detect_leaks=0:abort_on_error=1");
    let start = std::time::Instant::now();
    let out = c.output().map_err(|e| e.to_string())?;
    let err = String::from_utf8_lossy(&out.stderr).to_string();
    let stat = |k: &str| err.lines().find_map(|l| l.strip_prefix(k)).and_then(|v| v.trim().parse::<u64>().ok());
    let execs = stat("stat::number_of_executed_units:").unwrap_or(0);
    let cov = err.lines().rev().find_map(|l| l.split(" cov: ").nth(1).and_then(|r| r.split_whitespace().next()).and_then(|v| v.parse::<u64>().ok())).unwrap_or(0);
    let mut failures = vec![];
    let mut notes: Vec<String> = vec![];
    let timed_out = err.contains("ERROR: libFuzzer: timeout") || err.contains("ERROR: libFuzzer: out-of-memory");
    if !out.status.success() && timed_out {
        // a slow or memory-hungry input is inconclusive, never a violation
        notes.push(format!("libFuzzer stopped on a timeout / memory limit after {} executions: campaign inconclusive beyond that point", execs));
    } else if !out.status.success() {
        let artifact = std::fs::read_dir(&artifacts).ok().and_then(|mut d| d.next()).and_then(|e| e.ok()).map(|e| e.path().to_string_lossy().to_string());
        let msg = err
            .lines()
            .find(|l| l.contains("VIOLATION property="))
            .or_else(|| err.lines().find(|l| l.contains("AddressSanitizer") || l.contains("panicked at") || l.contains("ERROR: libFuzzer")))
            .unwrap_or("fuzz target crashed")
            .to_string();
        let Some(artifact) = artifact else {
            return Err(format!("cargo fuzz run {} failed without an artifact: {}", target, err.lines().rev().take(12).collect::<Vec<_>>().into_iter().rev().collect::<Vec<_>>().join(" | ")));
        };
        // keep the crashing input where the replay command can find it
        let kept = format!("{}/replays/{}-fuzz-{}", WORK, prop, artifact.rsplit('/').next().unwrap_or("crash"));
        std::fs::copy(&artifact, &kept).ok();
        failures.push(json!({
            "property": prop, "subject": format!("fuzz target {}", target), "subject_index": 0, "val": Value::Null,
            "val_shown": format!("crashing input kept at {}", kept), "env": {"fuzz_artifact": kept, "target": target},
            "signature": if msg.contains("AddressSanitizer") { "fuzz-asan" } else { "fuzz-oracle" }, "message": msg,
        }));
    }
    Ok(json!({
        "evaluations": execs, "nontrivial": [], "classes": {"fuzz-executions": execs, "fuzz-coverage-edges": cov}, "samples": [json!({"engine": "libFuzzer (cargo-fuzz, AddressSanitizer)", "target": target, "property": prop, "runs": execs, "coverage_edges": cov, "start_corpus": "48 deterministic pseudo-random inputs of 8..272 bytes", "max_len": 512})],
        "failures": failures, "known": {}, "excluded": {}, "exhaustive_parts": {}, "subjects": 0, "wall_s": start.elapsed().as_secs_f64(), "notes": notes,
    }))
}

/// Replay a saved crashing input (strict mode).
pub fn replay(target: &str, prop: &str, artifact: &str) -> Result<bool, String> {
    if !std::path::Path::new(artifact).is_file() {
        return Err(format!("replay file {} does not exist", artifact));
    }
    build_target(target)?;
    let mut c = cargo_fuzz(&["run", target, "--fuzz-dir", "fuzz", artifact]);
    c.env("VERIF_FUZZ_PROP", prop).env("VERIF_FUZZ_STRICT", "1").env("ASAN_OPTIONS", "detect_leaks=0:abort_on_error=1");
    let out = c.output().map_err(|e| e.to_string())?;
    Ok(!out.status.success())
}
