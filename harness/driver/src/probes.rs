//! Probe compiler: a generated crate with one `[[bin]]` per probe, checked with
//! `cargo check --bins --keep-going --message-format=json`; probes that type-check can be built and run.

use crate::{HARNESS, REPO, WORK};
use serde_json::Value;
use std::collections::BTreeMap;
use std::path::PathBuf;

#[derive(Clone, Debug)]
pub struct Probe {
    pub name: String,
    pub source: String,
}

#[derive(Clone, Debug, Default)]
pub struct ProbeResult {
    pub compiled: bool,
    pub errors: Vec<String>,
    pub run_status: Option<i32>,
    pub stdout: String,
}

pub fn crate_dir(tag: &str) -> PathBuf {
    PathBuf::from(format!("{}/probes-{}", WORK, tag))
}

pub fn write_crate(tag: &str, probes: &[Probe], no_mmap: bool) -> PathBuf {
    let dir = crate_dir(tag);
    let _ = std::fs::remove_dir_all(dir.join("src"));
    std::fs::create_dir_all(dir.join("src/bin")).unwrap();
    let feats = if no_mmap { "default-features = false, features = [\"std\", \"derive\"]" } else { "default-features = true" };
    // crates whose tag ends in "rel" are built as a release build would be
    let prof = if tag.ends_with("rel") { "opt-level = 1\ndebug = 0\noverflow-checks = false\ndebug-assertions = false" } else { "opt-level = 0\ndebug = 0\noverflow-checks = true" };
    let toml = format!(
        "[package]\nname = \"vprobes_{}\"\nversion = \"0.1.0\"\nedition = \"2021\"\n\n[workspace]\n\n[dependencies]\nepserde = {{ path = \"{}/epserde\", {} }}\nmaligned = \"0.2\"\n\n[patch.crates-io]\nepserde-derive = {{ path = \"{}/epserde-derive\" }}\n\n[profile.dev]\n{}\n",
        tag.replace('-', "_"),
        REPO,
        feats,
        REPO,
        prof
    );
    std::fs::write(dir.join("Cargo.toml"), toml).unwrap();
    if std::fs::read_to_string(dir.join("Cargo.lock")).ok().map_or(true, |l| l.contains("checksum = \"ac80cc78b69765703f48ad93f33b8919cf5d907cda7459ad6ba2919cbbe605dd\"")) {
        std::fs::copy(format!("{}/Cargo.lock", HARNESS), dir.join("Cargo.lock")).ok();
    }
    for p in probes {
        std::fs::write(dir.join(format!("src/bin/{}.rs", p.name)), &p.source).unwrap();
    }
    dir
}

fn cargo_json(dir: &PathBuf, sub: &str) -> (bool, BTreeMap<String, Vec<String>>, String) {
    let mut c = crate::build::cargo();
    if dir.to_string_lossy().ends_with("rel") {
        c.env("CARGO_TARGET_DIR", format!("{}/target-rel", WORK));
    }
    c.arg(sub).arg("--manifest-path").arg(dir.join("Cargo.toml")).arg("--bins").arg("--keep-going").arg("--message-format=json").arg("--offline");
    let out = c.output().expect("cargo");
    let mut errs: BTreeMap<String, Vec<String>> = BTreeMap::new();
    for line in String::from_utf8_lossy(&out.stdout).lines() {
        let Ok(v) = serde_json::from_str::<Value>(line) else { continue };
        if v["reason"] == "compiler-message" && v["message"]["level"] == "error" {
            let target = v["target"]["name"].as_str().unwrap_or("?").to_string();
            errs.entry(target).or_default().push(v["message"]["rendered"].as_str().unwrap_or("").to_string());
        }
    }
    (out.status.success(), errs, String::from_utf8_lossy(&out.stderr).to_string())
}

/// `cargo check` all probes; then build + run the ones in `run` that type-checked.
pub fn evaluate(tag: &str, probes: &[Probe], run: &dyn Fn(&str) -> bool) -> Result<BTreeMap<String, ProbeResult>, String> {
    let dir = write_crate(tag, probes, false);
    let (_ok, errs, stderr) = cargo_json(&dir, "check");
    let mut res: BTreeMap<String, ProbeResult> = BTreeMap::new();
    for p in probes {
        let e = errs.get(&p.name).cloned().unwrap_or_default();
        res.insert(p.name.clone(), ProbeResult { compiled: e.is_empty(), errors: e, ..Default::default() });
    }
    // errors not attributed to any probe (e.g. dependency failure) are an infrastructure problem
    if errs.keys().any(|k| !res.contains_key(k)) {
        return Err(format!("probe crate {}: errors outside the probes: {:?}\n{}", tag, errs.keys().collect::<Vec<_>>(), stderr.lines().rev().take(20).collect::<Vec<_>>().join("\n")));
    }
    let to_run: Vec<&Probe> = probes.iter().filter(|p| res[&p.name].compiled && run(&p.name)).collect();
    if !to_run.is_empty() {
        // remove probes that do not compile so that `cargo build` succeeds for the rest
        for p in probes {
            if !res[&p.name].compiled {
                std::fs::remove_file(dir.join(format!("src/bin/{}.rs", p.name))).ok();
            }
        }
        let (ok, berrs, stderr) = cargo_json(&dir, "build");
        if !ok && berrs.is_empty() {
            return Err(format!("probe crate {}: build failed: {}", tag, stderr.lines().rev().take(20).collect::<Vec<_>>().join("\n")));
        }
        for p in to_run {
            let exe = format!("{}/{}/debug/{}", WORK, if tag.ends_with("rel") { "target-rel" } else { "target" }, p.name);
            let out = std::process::Command::new(&exe).current_dir(format!("{}/tmp", WORK)).stderr(std::process::Stdio::null()).output().map_err(|e| format!("cannot run {}: {}", exe, e))?;
            let r = res.get_mut(&p.name).unwrap();
            r.run_status = out.status.code();
            r.stdout = String::from_utf8_lossy(&out.stdout).to_string();
            std::fs::remove_file(&exe).ok();
        }
    }
    Ok(res)
}

pub fn first_error_line(r: &ProbeResult) -> String {
    r.errors.first().map(|e| e.lines().next().unwrap_or("").to_string()).unwrap_or_default()
}
