//! `vcheck`: single entry point of the verification harness.
//!
//! vcheck <Cxx> [--tier quick|thorough] [--replay <file>]
//! vcheck gen-fixed            (re)generate the fixed universe description
//! vcheck show --seed N        print the generated program of a seeded universe
//!
//! Honours VERIF_SEED (default 0). Exit codes: 0 held / 1 violation / 2 infrastructure problem.

mod build;
mod c05;
mod c09;
mod c17;
mod probes;
mod evidence;
mod fixed;
mod fuzz;
mod props;

use serde_json::Value;
use std::path::PathBuf;

pub const VERIF: &str = "/verif";
pub const WORK: &str = "/verif/work";
pub const HARNESS: &str = "/verif/harness";
pub const REPO: &str = "/repo";

pub fn seed() -> u64 {
    std::env::var("VERIF_SEED").ok().and_then(|s| s.trim().parse::<i128>().ok()).map(|x| x as u64).unwrap_or(0)
}

pub struct Opts {
    pub prop: String,
    pub tier: String,
    pub replay: Option<PathBuf>,
    pub seed: u64,
}

fn main() {
    let args: Vec<String> = std::env::args().skip(1).collect();
    if args.is_empty() {
        eprintln!("usage: vcheck <Cxx>|gen-fixed|show [--tier quick|thorough] [--replay file]");
        std::process::exit(2);
    }
    let get = |name: &str| args.iter().position(|a| a == name).and_then(|i| args.get(i + 1).cloned());
    let tier = get("--tier").or_else(|| std::env::var("VERIF_TIER").ok()).unwrap_or_else(|| "quick".into());
    let opts = Opts { prop: args[0].clone(), tier, replay: get("--replay").map(|r| {
            // the wrapper script changes directory: relative paths refer to the caller's directory
            let p = PathBuf::from(&r);
            match std::env::var("VERIF_ORIG_CWD") {
                Ok(cwd) if p.is_relative() => PathBuf::from(cwd).join(p),
                _ => p,
            }
        }), seed: seed() };
    std::fs::create_dir_all(format!("{}/tmp", WORK)).ok();
    std::fs::create_dir_all(format!("{}/out", WORK)).ok();
    std::fs::create_dir_all(format!("{}/replays", WORK)).ok();
    std::fs::create_dir_all(format!("{}/evidence", VERIF)).ok();
    let code = match opts.prop.as_str() {
        "gen-fixed" => {
            fixed::write_fixed();
            0
        }
        "gen-corpus" => match build::prepare(&opts, &["fixed".to_string()]).and_then(|_| build::run_bin("fixed", "corpus-write", &opts, &[])) {
            Ok(_) => {
                println!("corpus written to /verif/corpus");
                0
            }
            Err(e) => {
                eprintln!("{}", e);
                2
            }
        },
        "fuzz-build" => match fuzz::build_target("fz_subjects").and_then(|_| fuzz::build_target("fz_cursor")) {
            Ok(_) => 0,
            Err(e) => {
                eprintln!("{}", e);
                2
            }
        },
        "show" => {
            let s: u64 = get("--seed").and_then(|s| s.parse().ok()).unwrap_or(0);
            let u = match get("--label") {
                Some(l) => build::universe_by_label(&l, &opts),
                None => build::seeded_universe(s, 0, &opts.tier).0,
            };
            println!("{}", vmodel::render::program(&u));
            0
        }
        "build" => {
            // warm the caches: fixed universe + seeded universe for the current seed
            match build::prepare(&opts, &["fixed".to_string(), "extra".to_string(), "zst".to_string(), format!("s{}", opts.seed)]) {
                Ok(_) => {
                    // the release-like variant of the fixed universe (C02, C11, C12, C15 run it in the quick tier)
                    build::set_variant("-rel");
                    let r = build::prepare(&opts, &["fixed".to_string()]);
                    build::set_variant("");
                    if let Err(e) = r {
                        eprintln!("{}", e);
                    }
                    0
                }
                Err(e) => {
                    eprintln!("{}", e);
                    2
                }
            }
        }
        p if p.starts_with('C') => props::run(&opts),
        _ => {
            eprintln!("unknown command {}", opts.prop);
            2
        }
    };
    std::process::exit(code);
}

pub fn read_json(p: &str) -> Option<Value> {
    std::fs::read_to_string(p).ok().and_then(|s| serde_json::from_str(&s).ok())
}
