//! C05: derived implementations over the grammar. Compile-time oracle (the generated program
//! compiles; a failure is bisected to the culprit definition), run-time oracle in the subject
//! programs, and identified probe classes for shapes the statement names but the derive rejects.

use crate::build;
use crate::evidence::Agg;
use crate::probes::{self, Probe};
use crate::props::{self, PropInfo};
use crate::Opts;
use serde_json::json;
use vmodel::ty::{Arg, Ty, Universe};

fn max_adt(t: &Ty) -> Option<usize> {
    match t {
        Ty::Adt(i, args) => {
            let mut m = *i;
            for a in args {
                if let Arg::Ty(t) = a {
                    if let Some(x) = max_adt(t) {
                        m = m.max(x);
                    }
                }
            }
            Some(m)
        }
        Ty::Prim(_) | Ty::String | Ty::BoxStr | Ty::RangeFull | Ty::Param(_) => None,
        Ty::Phantom(e) | Ty::Vec(e) | Ty::BoxSlice(e) | Ty::Array(e, _) | Ty::Tuple(e, _) | Ty::Option(e) | Ty::Bound(e) | Ty::Range(_, e) => max_adt(e),
        Ty::ControlFlow(b, c) => max_adt(b).into_iter().chain(max_adt(c)).max(),
    }
}

fn mentions(t: &Ty, i: usize) -> bool {
    match t {
        Ty::Adt(j, args) => *j == i || args.iter().any(|a| matches!(a, Arg::Ty(t) if mentions(t, i))),
        Ty::Prim(_) | Ty::String | Ty::BoxStr | Ty::RangeFull | Ty::Param(_) => false,
        Ty::Phantom(e) | Ty::Vec(e) | Ty::BoxSlice(e) | Ty::Array(e, _) | Ty::Tuple(e, _) | Ty::Option(e) | Ty::Bound(e) | Ty::Range(_, e) => mentions(e, i),
        Ty::ControlFlow(b, c) => mentions(b, i) || mentions(c, i),
    }
}

/// First `n` definitions and the subjects that only use them.
pub fn truncate(u: &Universe, n: usize) -> Universe {
    let mut t = u.clone();
    t.adts.truncate(n);
    t.subjects.retain(|s| max_adt(s).map_or(true, |m| m < n));
    t.pairs.clear();
    t
}

/// Bisect a universe whose program does not compile to the first definition that breaks it.
fn bisect(u: &Universe) -> (usize, Universe, Vec<String>) {
    let compiles = |n: usize| -> (bool, Vec<String>) {
        let t = truncate(u, n);
        let dir = build::write_crate(&[("bisect".to_string(), t)], "-bisect");
        let b = build::cargo_check(&dir);
        (b.ok, b.errors.values().flatten().cloned().collect())
    };
    let (mut lo, mut hi) = (0usize, u.adts.len()); // prefix lo compiles (assumed), prefix hi fails
    let mut errs = vec![];
    while hi - lo > 1 {
        let mid = (lo + hi) / 2;
        let (ok, e) = compiles(mid);
        if ok {
            lo = mid;
        } else {
            hi = mid;
            errs = e;
        }
    }
    if errs.is_empty() {
        errs = compiles(hi).1;
    }
    let culprit = hi - 1;
    let mut reduced = truncate(u, hi);
    reduced.subjects.retain(|s| mentions(s, culprit));
    (culprit, reduced, errs)
}

struct ProbeClass {
    sig: &'static str,
    what: &'static str,
    sources: Vec<String>,
}

const PROBE_PRELUDE: &str = "#![allow(dead_code, unused_imports, non_snake_case, non_upper_case_globals, non_camel_case_types)]\nuse epserde::prelude::*;\nfn rt<T: Serialize + Deserialize + PartialEq + core::fmt::Debug>(v: &T) -> bool {\n    let mut c = <AlignedCursor<maligned::A64>>::new();\n    v.serialize(&mut c).unwrap();\n    c.set_position(0);\n    let f = T::deserialize_full(&mut c).unwrap();\n    let _e = T::deserialize_eps(c.as_bytes()).unwrap();\n    f == *v\n}\n";

fn probe_classes() -> Vec<ProbeClass> {
    let bounds = ["Clone", "core::fmt::Debug", "PartialEq", "Clone + core::fmt::Debug"];
    let mut o10 = vec![];
    let mut o11 = vec![];
    for b in bounds {
        o10.push(format!("#[derive(Epserde, Clone, Debug, PartialEq)]\nstruct W<A> where A: {b} {{ a: A, n: u8 }}\nfn main() {{ println!(\"RESULT {{}}\", rt(&W {{ a: vec![1u32, 2], n: 3 }})); }}\n"));
        o10.push(format!("#[derive(Epserde, Clone, Debug, PartialEq)]\nstruct W<A, B> where B: {b} {{ x: u16, b: B, a: A }}\nfn main() {{ println!(\"RESULT {{}}\", rt(&W {{ x: 1, b: String::from(\"s\"), a: 7u64 }})); }}\n"));
        o11.push(format!("#[derive(Epserde, Clone, Debug, PartialEq)]\nenum E<A: {b}> {{ X, Y(A) }}\nfn main() {{ println!(\"RESULT {{}}\", rt(&E::Y(vec![1u8, 2])) && rt(&E::<Vec<u8>>::X)); }}\n"));
        o11.push(format!("#[derive(Epserde, Clone, Debug, PartialEq)]\nenum E<A: {b}, B> {{ P {{ a: A, b: B }}, Q }}\nfn main() {{ println!(\"RESULT {{}}\", rt(&E::P {{ a: 3u32, b: String::from(\"q\") }})); }}\n"));
    }
    o10.push("#[derive(Epserde, Clone, Copy, Debug, PartialEq)]\n#[repr(C)]\n#[zero_copy]\nstruct WZ<A: ZeroCopy> where A: PartialEq { a: A, n: u8 }\nfn main() { println!(\"RESULT {}\", rt(&WZ { a: 5u32, n: 3 })); }\n".to_string());
    o11.push("#[derive(Epserde, Clone, Copy, Debug, PartialEq)]\n#[repr(C)]\n#[zero_copy]\nenum EZ<A: ZeroCopy> { A(A), B }\nfn main() { println!(\"RESULT {}\", rt(&EZ::A(5u32))); }\n".to_string());
    let mut o12 = vec![];
    for arg in ["[u16; 2]", "(u8, u8)", "Inner", "[Inner; 2]"] {
        let val = match arg {
            "[u16; 2]" => "[1u16, 2]",
            "(u8, u8)" => "(1u8, 2u8)",
            "Inner" => "Inner { a: 1 }",
            _ => "[Inner { a: 1 }, Inner { a: 2 }]",
        };
        o12.push(format!("#[derive(Epserde, Clone, Copy, Debug, PartialEq)]\n#[repr(C)]\n#[zero_copy]\nstruct Inner {{ a: u32 }}\n#[derive(Epserde, Clone, Copy, Debug, PartialEq)]\n#[repr(C)]\n#[zero_copy]\nstruct Z2<A: ZeroCopy, B: ZeroCopy>(A, B, u8);\nfn main() {{ let _ = core::mem::size_of::<{arg}>(); println!(\"RESULT {{}}\", rt(&Z2(7u32, {val}, 9u8))); }}\n"));
    }
    // fields whose type is an associated type of a parameter (`F::Store`): structures parameterised by a
    // "storage family" trait
    let fam = "pub trait Family { type Store; type Word; }\n#[derive(Debug, PartialEq, Eq, Clone, Copy, Default, epserde::TypeInfo)]\npub struct Wide;\nimpl Family for Wide { type Store = Vec<u64>; type Word = u64; }\n#[derive(Debug, PartialEq, Eq, Clone, Copy, Default, epserde::TypeInfo)]\npub struct Narrow;\nimpl Family for Narrow { type Store = Box<[u8]>; type Word = u8; }\n";
    let proj = vec![
        format!("{fam}#[derive(Epserde, Debug, PartialEq, Eq, Clone)]\nstruct Index<F: Family> {{ len: usize, data: F::Store, last: F::Word }}\nfn main() {{ println!(\"RESULT {{}}\", rt(&Index::<Wide> {{ len: 3, data: vec![1, 2, 3], last: 7 }}) && rt(&Index::<Narrow> {{ len: 1, data: vec![9u8].into_boxed_slice(), last: 2 }})); }}\n"),
        format!("{fam}#[derive(Epserde, Debug, PartialEq, Eq, Clone)]\nenum Slot<F: Family, T> {{ Empty, Word(F::Word), Both {{ store: F::Store, extra: T }} }}\nfn main() {{ println!(\"RESULT {{}}\", rt(&Slot::<Wide, Vec<u8>>::Empty) && rt(&Slot::<Wide, Vec<u8>>::Word(5)) && rt(&Slot::<Wide, Vec<u8>>::Both {{ store: vec![9, 8], extra: vec![1, 2, 3] }})); }}\n"),
    ];
    vec![
        ProbeClass { sig: "derive-rejects:associated-type-projection-field", what: "a field whose type is an associated type of a type parameter (struct Index<F: Family> { data: F::Store }) is not handled by the derive", sources: proj },
        ProbeClass { sig: "derive-rejects:where-clause-on-field-parameter", what: "O10: a where-clause predicate on a type parameter that is the type of a field (struct S<A> where A: Clone { a: A }) is not carried over to the serialization / ε-copy types: the derived code does not compile", sources: o10 },
        ProbeClass { sig: "derive-rejects:bound-on-enum-field-parameter", what: "O11: an inline bound on a type parameter that is the type of a field of an enum variant (enum E<A: Clone> { X, Y(A) }) is not replicated: the derived code does not compile", sources: o11 },
        ProbeClass { sig: "derive-rejects:zero-copy-parameter-with-borrowed-eps-type", what: "O12: a zero-copy generic struct whose field parameter is instantiated by an array, tuple or zero-copy struct (Z2<u32, [u16; 2]>) implements neither trait: the ZeroCopy bound is replicated onto the parameter's ε-copy type, a reference", sources: o12 },
    ]
}

const KEYWORDS: [&str; 54] = [
    "as", "break", "const", "continue", "crate", "else", "enum", "extern", "false", "fn", "for", "if", "impl", "in", "let", "loop", "match", "mod", "move", "mut", "pub", "ref", "return", "self", "Self", "static", "struct", "super", "trait", "true", "type",
    "unsafe", "use", "where", "while", "async", "await", "dyn", "abstract", "become", "box", "do", "final", "macro", "override", "priv", "typeof", "unsized", "virtual", "yield", "try", "gen", "union", "_",
];

/// Every identifier that occurs in the source of the derive crate (the names its generated code can possibly use
/// for its own locals, constants and parameters are among them, whatever the current version of the macro is).
fn harvested_identifiers() -> Vec<String> {
    let src = std::fs::read_to_string(format!("{}/epserde-derive/src/lib.rs", crate::REPO)).unwrap_or_default();
    let mut out = std::collections::BTreeSet::new();
    let mut cur = String::new();
    for c in src.chars().chain(std::iter::once(' ')) {
        if c.is_ascii_alphanumeric() || c == '_' {
            cur.push(c);
        } else {
            if !cur.is_empty() && !cur.chars().next().unwrap().is_ascii_digit() && !KEYWORDS.contains(&cur.as_str()) && cur.len() <= 40 {
                out.insert(cur.clone());
            }
            cur.clear();
        }
    }
    out.into_iter().collect()
}

/// Probe programs whose definitions use the given identifiers as field names (deep-copy struct, zero-copy struct,
/// struct-like enum variant) and, for the upper-case ones, as names of const parameters that no field mentions.
fn ident_probe(idents: &[String]) -> String {
    let mut s = String::new();
    let fields = |ty: &str| idents.iter().map(|i| format!("{}: {}", i, ty)).collect::<Vec<_>>().join(", ");
    let vals = |f: &dyn Fn(usize) -> String| idents.iter().enumerate().map(|(k, i)| format!("{}: {}", i, f(k))).collect::<Vec<_>>().join(", ");
    s.push_str(&format!("#[derive(Epserde, Clone, Debug, PartialEq)]\nstruct DS {{ {} }}\n", fields("u16")));
    s.push_str(&format!("#[derive(Epserde, Clone, Copy, Debug, PartialEq)]\n#[repr(C)]\n#[zero_copy]\nstruct ZS {{ {} }}\n", fields("u8")));
    s.push_str(&format!("#[derive(Epserde, Clone, Debug, PartialEq)]\nenum DE {{ Unit, Rec {{ {} }}, Tup(u8) }}\n", fields("u32")));
    s.push_str(&format!("#[derive(Epserde, Clone, Copy, Debug, PartialEq)]\n#[repr(C)]\n#[zero_copy]\nenum ZE {{ Unit, Rec {{ {} }} }}\n", fields("u8")));
    let upper: Vec<&String> = idents.iter().filter(|i| i.chars().all(|c| c.is_ascii_uppercase() || c.is_ascii_digit() || c == '_') && i.chars().any(|c| c.is_ascii_uppercase())).collect();
    for (k, i) in upper.iter().enumerate() {
        s.push_str(&format!("#[derive(Epserde, Clone, Debug, PartialEq)]\nstruct CD{k}<const {i}: u8> {{ x: u8 }}\n#[derive(Epserde, Clone, Copy, Debug, PartialEq)]\n#[repr(C)]\n#[zero_copy]\nstruct CZ{k}<const {i}: u8> {{ x: u8 }}\n#[derive(Epserde, Clone, Debug, PartialEq)]\nenum CE{k}<const {i}: u8> {{ A, B(u8) }}\n", k = k, i = i));
    }
    s.push_str("fn hashes<T: Serialize>(v: &T) -> Vec<u8> {\n    let mut c = <AlignedCursor<maligned::A64>>::new();\n    v.serialize(&mut c).unwrap();\n    c.as_bytes()[13..29].to_vec()\n}\n");
    s.push_str("fn main() {\n    let mut ok = true;\n");
    s.push_str(&format!("    ok &= rt(&DS {{ {} }});\n", vals(&|k| format!("{}u16", 1000 + k))));
    s.push_str(&format!("    ok &= rt(&ZS {{ {} }});\n", vals(&|k| format!("{}u8", (k * 7 + 1) % 251))));
    s.push_str(&format!("    ok &= rt(&DE::Rec {{ {} }});\n    ok &= rt(&DE::Unit) && rt(&DE::Tup(9));\n", vals(&|k| format!("{}u32", 70_000 + k))));
    s.push_str(&format!("    ok &= rt(&ZE::Rec {{ {} }});\n", vals(&|k| format!("{}u8", (k * 5 + 3) % 251))));
    for k in 0..upper.len() {
        s.push_str(&format!("    ok &= rt(&CD{k}::<1> {{ x: 4 }}) && rt(&CZ{k}::<1> {{ x: 4 }}) && rt(&CE{k}::<1>::B(3));\n    ok &= hashes(&CD{k}::<1> {{ x: 4 }})[..8] != hashes(&CD{k}::<2> {{ x: 4 }})[..8];\n    ok &= hashes(&CZ{k}::<1> {{ x: 4 }})[..8] != hashes(&CZ{k}::<2> {{ x: 4 }})[..8];\n    ok &= hashes(&CE{k}::<1>::A)[..8] != hashes(&CE{k}::<2>::A)[..8];\n", k = k));
    }
    s.push_str("    println!(\"RESULT {}\", ok);\n}\n");
    s
}

pub fn run(opts: &Opts, pi: &PropInfo) -> i32 {
    let start = std::time::Instant::now();
    let mut agg = Agg::default();
    let mut infra = None;
    let labels: Vec<String> = if let Some(r) = &opts.replay {
        let rj = crate::read_json(&r.to_string_lossy()).unwrap_or_default();
        if rj["universe_inline"].is_object() {
            vec!["replay".into()]
        } else if rj["env"]["probe_source"].is_string() {
            vec![]
        } else {
            vec![rj["universe"].as_str().unwrap_or("fixed").to_string()]
        }
    } else {
        let mut v = vec!["fixed".to_string(), "extra".to_string(), "zst".to_string(), format!("s{}", opts.seed)];
        if opts.tier == "thorough" {
            for k in 1..16 {
                v.push(format!("s{}k{}", opts.seed, k));
            }
        }
        v
    };
    // ---- (i) the generated programs compile
    if !labels.is_empty() {
        let us: Vec<(String, Universe)> = labels.iter().map(|l| (l.clone(), build::universe_by_label(l, opts))).collect();
        let dir = build::write_crate(&us, "");
        let b = build::cargo_build(&dir, true);
        for (label, u) in &us {
            agg.evaluations += u.adts.len() as u64;
            if let Some(errs) = b.errors.get(label) {
                // compile failure: find the culprit definition
                let (culprit, reduced, berrs) = bisect(u);
                let def_src = vmodel::render::adt_def(&reduced, &reduced.adts[culprit]);
                let first = berrs.first().or(errs.first()).cloned().unwrap_or_default();
                agg.failures.push(json!({
                    "subject": format!("definition {} of universe {}", reduced.adts[culprit].name, label),
                    "signature": "derived-code-does-not-compile",
                    "message": format!("the program generated from the grammar does not compile; first failing definition:\n{}\nfirst compiler error:\n{}", def_src, first.lines().take(12).collect::<Vec<_>>().join("\n")),
                    "val_shown": def_src,
                    "universe": label,
                    "universe_inline": serde_json::to_value(&reduced).unwrap(),
                    "env": {"culprit": culprit},
                }));
                continue;
            }
            if !b.ok && b.errors.is_empty() {
                infra = Some(format!("build failed without attributable errors: {}", b.raw_tail));
                continue;
            }
            let mut extra = vec![];
            if let Some(r) = &opts.replay {
                if label != "replay" {
                    extra.push("--replay".to_string());
                    extra.push(r.to_string_lossy().to_string());
                }
            }
            match build::run_bin(label, "C05", opts, &extra) {
                Ok(mut r) => {
                    if let Some(fs) = r["failures"].as_array_mut() {
                        for f in fs.iter_mut() {
                            f["universe"] = json!(label);
                        }
                    }
                    agg.add_report(&r);
                    agg.universes.push(json!({"label": label, "definitions": u.adts.len(), "subjects": u.subjects.len(), "compiled": true, "wall_s": r["wall_s"]}));
                }
                Err(e) => infra = Some(e),
            }
        }
    }
    // ---- identified reject classes (shapes named by the statement)
    if opts.replay.is_none() || labels.is_empty() {
        let classes = probe_classes();
        let mut list = vec![];
        let mut meta = vec![];
        if let Some(src) = opts.replay.as_ref().and_then(|r| crate::read_json(&r.to_string_lossy())).and_then(|r| r["env"]["probe_source"].as_str().map(|s| s.to_string())) {
            list.push(Probe { name: "c05_probe_replay".into(), source: src });
            meta.push(("derive-rejects:replayed".to_string(), "replayed probe".to_string()));
        } else {
            for c in &classes {
                for (k, s) in c.sources.iter().enumerate() {
                    list.push(Probe { name: format!("c05_{}_{}", c.sig.split(':').nth(1).unwrap_or("x").replace('-', "_"), k), source: format!("{}{}", PROBE_PRELUDE, s) });
                    meta.push((c.sig.to_string(), c.what.to_string()));
                }
            }
        }
        match probes::evaluate("c05", &list, &|_| true) {
            Err(e) => infra = Some(e),
            Ok(res) => {
                for (p, (sig, _what)) in list.iter().zip(&meta) {
                    let r = &res[&p.name];
                    agg.evaluations += 1;
                    agg.nontrivial.insert(format!("probe:{}", p.name));
                    if !r.compiled {
                        agg.failures.push(json!({
                            "subject": p.name, "signature": sig,
                            "message": format!("a definition in the grammar named by the property is rejected by the derive: {}", probes::first_error_line(r)),
                            "val_shown": p.source.split(PROBE_PRELUDE).last().unwrap_or(""),
                            "env": {"probe_source": p.source},
                        }));
                    } else if !r.stdout.contains("RESULT true") {
                        agg.failures.push(json!({
                            "subject": p.name, "signature": "probe-roundtrip",
                            "message": format!("probe compiles but does not round-trip: {:?} (status {:?})", r.stdout.trim(), r.run_status),
                            "val_shown": p.source.split(PROBE_PRELUDE).last().unwrap_or(""),
                            "env": {"probe_source": p.source},
                        }));
                    } else {
                        *agg.classes.entry(format!("probe-compiles:{}", sig)).or_default() += 1;
                    }
                }
            }
        }
    }
    // ---- identifiers: definitions whose fields / const parameters are named like anything the macro's own source
    // mentions (a local of the generated code must never capture or shadow a user's name)
    if opts.replay.is_none() {
        let ids = harvested_identifiers();
        agg.evaluations += ids.len() as u64;
        *agg.classes.entry("identifiers harvested from the derive source and used as field / const-parameter names".into()).or_default() += ids.len() as u64;
        let eval = |tag: &str, groups: &[Vec<String>]| -> Result<Vec<(Vec<String>, bool, String)>, String> {
            let list: Vec<Probe> = groups.iter().enumerate().map(|(k, g)| Probe { name: format!("c05_ident_{}_{}", tag, k), source: format!("{}{}", PROBE_PRELUDE, ident_probe(g)) }).collect();
            let res = probes::evaluate("c05id", &list, &|_| true)?;
            Ok(groups.iter().zip(&list).map(|(g, p)| {
                let r = &res[&p.name];
                let ok = r.compiled && r.stdout.contains("RESULT true");
                (g.clone(), ok, if r.compiled { format!("compiles, but the round trips / hash comparisons print {:?} (status {:?})", r.stdout.trim(), r.run_status) } else { probes::first_error_line(r) })
            }).collect())
        };
        // all at once, then chunks of 16, then single identifiers of the failing chunks
        let mut bad: Vec<(String, String)> = vec![];
        match eval("all", &[ids.clone()]) {
            Err(e) => infra = Some(e),
            Ok(r) if r[0].1 => {}
            Ok(_) => {
                let chunks: Vec<Vec<String>> = ids.chunks(16).map(|c| c.to_vec()).collect();
                match eval("chunk", &chunks) {
                    Err(e) => infra = Some(e),
                    Ok(rs) => {
                        let singles: Vec<Vec<String>> = rs.iter().filter(|r| !r.1).flat_map(|r| r.0.iter().map(|i| vec![i.clone()])).collect();
                        match eval("one", &singles) {
                            Err(e) => infra = Some(e),
                            Ok(rs) => {
                                for (g, ok, why) in rs {
                                    if !ok {
                                        bad.push((g[0].clone(), why));
                                    }
                                }
                            }
                        }
                    }
                }
            }
        }
        for (ident, why) in bad {
            agg.nontrivial.insert(format!("ident:{}", ident));
            agg.failures.push(json!({
                "subject": format!("identifier `{}`", ident), "signature": format!("derive-identifier-collision:{}", ident),
                "message": format!("definitions that name a field (or an unused const parameter) `{}` are not handled by the derive: {}", ident, why),
                "val_shown": ident_probe(&[ident.clone()]),
                "env": {"probe_source": format!("{}{}", PROBE_PRELUDE, ident_probe(&[ident.clone()]))},
            }));
        }
    }
    props::finish(opts, pi, agg, start, infra)
}
