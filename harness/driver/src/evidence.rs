//! Evidence files (`/verif/evidence/<id>.json`).

use serde_json::{json, Value};
use std::collections::{BTreeMap, BTreeSet};

#[derive(Default)]
pub struct Agg {
    pub evaluations: u64,
    pub nontrivial: BTreeSet<String>,
    pub nontrivial_extra: u64,
    pub classes: BTreeMap<String, u64>,
    pub samples: Vec<Value>,
    pub failures: Vec<Value>,
    pub known: BTreeMap<String, u64>,
    pub excluded: BTreeMap<String, u64>,
    pub notes: Vec<String>,
    pub exhaustive_parts: BTreeMap<String, u64>,
    pub universes: Vec<Value>,
    pub subjects: u64,
    pub extra: BTreeMap<String, Value>,
}

impl Agg {
    pub fn add_report(&mut self, r: &Value) {
        self.evaluations += r["evaluations"].as_u64().unwrap_or(0);
        if let Some(a) = r["nontrivial"].as_array() {
            for h in a {
                if let Some(s) = h.as_str() {
                    self.nontrivial.insert(s.to_string());
                }
            }
        }
        if let Some(m) = r["classes"].as_object() {
            for (k, v) in m {
                *self.classes.entry(k.clone()).or_default() += v.as_u64().unwrap_or(0);
            }
        }
        if let Some(a) = r["samples"].as_array() {
            for s in a {
                if self.samples.len() < 16 {
                    self.samples.push(s.clone());
                }
            }
        }
        if let Some(a) = r["failures"].as_array() {
            self.failures.extend(a.iter().cloned());
        }
        for (name, dst) in [("known", &mut self.known), ("excluded", &mut self.excluded), ("exhaustive_parts", &mut self.exhaustive_parts)] {
            if let Some(m) = r[name].as_object() {
                for (k, v) in m {
                    *dst.entry(k.clone()).or_default() += v.as_u64().unwrap_or(0);
                }
            }
        }
        if let Some(a) = r["notes"].as_array() {
            for n in a.iter().take(20) {
                if let Some(s) = n.as_str() {
                    self.notes.push(s.to_string());
                }
            }
        }
        self.subjects += r["subjects"].as_u64().unwrap_or(0);
    }
}

#[allow(clippy::too_many_arguments)]
pub fn write(prop: &str, tier: &str, seed: u64, level: &str, rule: &str, assumptions: &[&str], agg: &Agg, wall_s: f64, violations: usize, exhaustive: bool) {
    let mut classes: Vec<(&String, &u64)> = agg.classes.iter().collect();
    classes.sort();
    let mut coverage = json!({
        "evaluations": agg.evaluations,
        "distinct_nontrivial": agg.nontrivial.len() as u64 + agg.nontrivial_extra,
        "rule": rule,
        "samples": agg.samples,
        "classes": agg.classes,
        "subjects": agg.subjects,
        "universes": agg.universes,
        "known_findings_encountered": agg.known,
        "excluded_by_construction": agg.excluded,
        "exhaustive_parts": agg.exhaustive_parts,
        "notes": agg.notes.iter().take(20).collect::<Vec<_>>(),
        "exhaustive": exhaustive,
    });
    for (k, v) in &agg.extra {
        coverage[k] = v.clone();
    }
    let ev = json!({
        "property_id": prop,
        "tier": tier,
        "seed": seed as i64,
        "level": level,
        "coverage": coverage,
        "assumptions": assumptions,
        "wall_s": wall_s,
        "violations": violations,
    });
    let p = format!("{}/evidence/{}.json", crate::VERIF, prop);
    std::fs::write(&p, serde_json::to_string_pretty(&ev).unwrap()).unwrap();
}
