//! C17: a type wrongly declared zero-copy can never be serialized as raw memory.

use crate::evidence::Agg;
use crate::probes::{self, Probe};
use crate::props::{self, PropInfo};
use crate::Opts;
use proptest::strategy::{Strategy, ValueTree};
use proptest::test_runner::{Config, RngSeed, TestRunner};
use serde_json::json;
use vmodel::gen::Src;

/// (type, value expression): valid zero-copy field types
const GOOD: &[(&str, &str)] = &[
    ("u8", "7u8"),
    ("u32", "0xdead_beefu32"),
    ("u64", "0x0123_4567_89ab_cdefu64"),
    ("i16", "-3i16"),
    ("f64", "1.5f64"),
    ("bool", "true"),
    ("char", "'x'"),
    ("[u16; 3]", "[1u16, 2, 3]"),
    ("(u32, u32)", "(4u32, 5u32)"),
    ("core::ops::RangeTo<u32>", "..9u32"),
    ("core::marker::PhantomData<String>", "core::marker::PhantomData"),
    ("Inner", "Inner { a: 1, b: 2 }"),
    ("core::num::NonZeroU32", "core::num::NonZeroU32::new(5).unwrap()"),
    ("()", "()"),
];

/// (type, value expression, description): types that are not zero-copy
const BAD: &[(&str, &str, &str)] = &[
    ("Vec<u8>", "vec![1u8, 2, 3]", "vector"),
    ("Vec<u64>", "vec![1u64; 40]", "vector"),
    ("String", "String::from(\"heap\")", "string"),
    ("Box<str>", "String::from(\"heap\").into_boxed_str()", "boxed str"),
    ("Box<[u16]>", "vec![1u16, 2].into_boxed_slice()", "boxed slice"),
    ("DeepS", "DeepS { v: vec![9u8; 5] }", "deep struct holding a vector"),
    ("DeepPlainCopy", "DeepPlainCopy { a: 3 }", "Copy struct without zero_copy attribute"),
    ("DeepAttrCopy", "DeepAttrCopy { a: 3 }", "Copy struct declared deep_copy"),
    ("Option<u32>", "Some(3u32)", "option"),
    ("Option<Vec<u8>>", "Some(vec![1u8])", "option of vector"),
    ("&'static [u8]", "&[1u8, 2, 3]", "reference to slice"),
    ("&'static str", "\"abc\"", "reference to str"),
    ("RefHolder", "RefHolder { r: &[1u8, 2] }", "reference-holding struct"),
    ("[Vec<u8>; 2]", "[vec![1u8], vec![2u8]]", "array of vectors"),
    ("[String; 1]", "[String::from(\"x\")]", "array of strings"),
    ("core::ops::Range<u32>", "0u32..3", "non-Copy range"),
    ("core::ops::Bound<u32>", "core::ops::Bound::Included(3u32)", "bound"),
    ("DeepE", "DeepE::B(vec![1u8])", "deep enum"),
];

const PRELUDE: &str = r#"#![allow(dead_code, unused_imports)]
use epserde::prelude::*;

#[derive(Epserde, Clone, Copy, Debug, PartialEq)]
#[repr(C)]
#[zero_copy]
pub struct Inner { pub a: u16, pub b: u8 }

#[derive(Epserde, Clone, Debug, PartialEq)]
pub struct DeepS { pub v: Vec<u8> }

#[derive(Epserde, Clone, Copy, Debug, PartialEq)]
pub struct DeepPlainCopy { pub a: u8 }

#[derive(Epserde, Clone, Copy, Debug, PartialEq)]
#[deep_copy]
pub struct DeepAttrCopy { pub a: u8 }

#[derive(Epserde, Clone, Debug, PartialEq)]
pub enum DeepE { A, B(Vec<u8>) }

#[derive(Clone, Copy, Debug, PartialEq)]
pub struct RefHolder { pub r: &'static [u8] }

pub struct CountSink(pub usize);
impl std::io::Write for CountSink {
    fn write(&mut self, b: &[u8]) -> std::io::Result<usize> { self.0 += b.len(); Ok(b.len()) }
    fn flush(&mut self) -> std::io::Result<()> { Ok(()) }
}
"#;

/// A hand-written type *declared* zero-copy (`CopyType::Copy = Zero`) that holds a pointer and honestly
/// reports `IS_ZERO_COPY = false`: the run-time defence (`check_zero_copy`) is the only thing between it and
/// the file. (Tuples and ranges of such a type are not probed: their implementations do not consult the
/// element's `IS_ZERO_COPY` on the pinned tree either, and they are outside the property's family.)
const HANDLE: &str = r#"
#[derive(Clone, Copy, Debug)]
pub struct Handle(pub &'static str);
impl CopyType for Handle { type Copy = Zero; }
impl MaxSizeOf for Handle { fn max_size_of() -> usize { core::mem::size_of::<usize>() } }
impl TypeHash for Handle { fn type_hash(h: &mut impl core::hash::Hasher) { use core::hash::Hash; "Handle".hash(h); } }
impl AlignHash for Handle { fn align_hash(h: &mut impl core::hash::Hasher, off: &mut usize) { use core::hash::Hash; core::mem::size_of::<Self>().hash(h); *off += core::mem::size_of::<Self>(); } }
impl SerializeInner for Handle {
    type SerType = Self;
    const IS_ZERO_COPY: bool = false;
    const ZERO_COPY_MISMATCH: bool = false;
    fn _serialize_inner(&self, backend: &mut impl ser::WriteWithNames) -> ser::Result<()> { epserde::ser::helpers::serialize_zero(backend, self) }
}
impl DeserializeInner for Handle {
    type DeserType<'a> = &'a Handle;
    fn _deserialize_full_inner(backend: &mut impl ReadWithPos) -> deser::Result<Self> { epserde::deser::helpers::deserialize_full_zero::<Self>(backend) }
    fn _deserialize_eps_inner<'a>(backend: &mut SliceWithPos<'a>) -> deser::Result<Self::DeserType<'a>> { epserde::deser::helpers::deserialize_eps_zero::<Self>(backend) }
}
"#;

/// (definitions, type, value, description) using `Handle`
const HANDLE_USES: &[(&str, &str, &str, &str)] = &[
    ("", "Handle", "Handle(\"leak\")", "hand-declared zero-copy pointer holder, standalone"),
    ("", "Vec<Handle>", "vec![Handle(\"a\"), Handle(\"b\")]", "vector of hand-declared pointer holders"),
    ("", "Box<[Handle]>", "vec![Handle(\"a\")].into_boxed_slice()", "boxed slice of hand-declared pointer holders"),
    ("", "[Handle; 2]", "[Handle(\"a\"), Handle(\"b\")]", "array of hand-declared pointer holders"),
    ("", "Vec<[Handle; 2]>", "vec![[Handle(\"a\"), Handle(\"b\")]]", "vector of arrays of hand-declared pointer holders"),
    ("#[derive(Epserde, Clone, Copy, Debug)]\n#[repr(C)]\n#[zero_copy]\npub struct T { pub n: u32, pub h: Handle }\n", "T", "T { n: 1, h: Handle(\"a\") }", "derived zero-copy struct with a hand-declared pointer-holder field"),
    ("#[derive(Epserde, Clone, Copy, Debug)]\n#[repr(C)]\n#[zero_copy]\npub struct T { pub hs: [Handle; 2], pub n: u8 }\n", "T", "T { hs: [Handle(\"a\"), Handle(\"b\")], n: 1 }", "derived zero-copy struct with an array-of-pointer-holders field"),
    ("#[derive(Epserde, Clone, Copy, Debug)]\n#[repr(C)]\n#[zero_copy]\npub enum T { A, B(u32), C { h: Handle, n: u8 } }\n", "T", "T::C { h: Handle(\"a\"), n: 2 }", "derived zero-copy enum with a pointer holder in a struct-like variant"),
    ("#[derive(Epserde, Clone, Copy, Debug)]\n#[repr(C)]\n#[zero_copy]\npub enum T { A, B(Handle), C { x: u16, n: u8 } }\n", "T", "T::B(Handle(\"a\"))", "derived zero-copy enum with a pointer holder in a tuple variant"),
    ("#[derive(Epserde, Clone, Copy, Debug)]\n#[repr(C)]\n#[zero_copy]\npub struct Z { pub h: Handle }\n#[derive(Epserde, Clone, Debug)]\npub struct T { pub v: Vec<Z>, pub n: u8 }\n", "T", "T { v: vec![Z { h: Handle(\"a\") }], n: 1 }", "deep struct holding a vector of zero-copy structs with a pointer holder"),
    ("#[derive(Epserde, Clone, Debug)]\npub struct T<A> { pub a: A, pub n: u8 }\n", "T<Vec<[Handle; 3]>>", "T { a: vec![[Handle(\"a\"); 3]], n: 1 }", "generic deep struct instantiated with a vector of arrays of pointer holders"),
    ("#[derive(Epserde, Clone, Copy, Debug)]\n#[repr(C)]\n#[zero_copy]\npub struct T<A: ZeroCopy> { pub tag: u64, pub payload: A }\n", "T<Handle>", "T { tag: 7, payload: Handle(\"a\") }", "generic derived zero-copy struct instantiated with a pointer holder"),
    ("#[derive(Epserde, Clone, Copy, Debug)]\n#[repr(C)]\n#[zero_copy]\npub struct T<A: ZeroCopy> { pub items: [A; 2], pub n: u8 }\n", "T<Handle>", "T { items: [Handle(\"a\"), Handle(\"b\")], n: 1 }", "generic derived zero-copy struct with an array of its pointer-holder parameter"),
    ("#[derive(Epserde, Clone, Copy, Debug)]\n#[repr(C)]\n#[zero_copy]\npub struct G<A: ZeroCopy> { pub tag: u64, pub payload: A }\n", "Vec<G<Handle>>", "vec![G { tag: 7, payload: Handle(\"a\") }]", "vector of generic derived zero-copy structs instantiated with a pointer holder"),
    ("#[derive(Epserde, Clone, Copy, Debug)]\n#[repr(C)]\n#[zero_copy]\npub enum T<A: ZeroCopy> { N, S([A; 1]) }\n", "T<Handle>", "T::S([Handle(\"a\")])", "generic derived zero-copy enum holding an array of its pointer-holder parameter"),
    ("static HS: [Handle; 2] = [Handle(\"a\"), Handle(\"b\")];\n", "epserde::impls::iter::SerIter<'static, Handle, core::slice::Iter<'static, Handle>>", "epserde::impls::iter::SerIter::from(HS.iter())", "exact-size-iterator wrapper over hand-declared pointer holders"),
    ("static HS: [Handle; 2] = [Handle(\"a\"), Handle(\"b\")];\n#[derive(Epserde, Clone, Debug)]\npub struct W<A> { pub a: A, pub post: u8 }\n", "W<epserde::impls::iter::SerIter<'static, Handle, core::slice::Iter<'static, Handle>>>", "W { a: epserde::impls::iter::SerIter::from(HS.iter()), post: 1 }", "iterator wrapper over pointer holders inside a generic struct"),
    ("static HS: [Handle; 2] = [Handle(\"a\"), Handle(\"b\")];\n", "&'static [Handle]", "&HS[..]", "slice reference to hand-declared pointer holders"),
];

struct Def {
    source: String,
    value: String,
    ty: String,
}

#[derive(Clone, Copy, PartialEq, Debug)]
enum Mutation {
    None,
    BadField(usize),
    DropReprC,
    ReprRust,
    BothAttrs,
    BadInArrayOfStruct,
}

fn gen_def(src: &mut Src, m: Mutation) -> (Def, String) {
    let is_enum = src.chance(1, 3);
    let tuple = src.chance(1, 3);
    let n = 1 + src.pick(4);
    let mut fields: Vec<(String, String)> = (0..n).map(|_| { let g = GOOD[src.pick(GOOD.len())]; (g.0.to_string(), g.1.to_string()) }).collect();
    let mut what = String::from("valid twin");
    let mut derives = "Epserde, Clone, Copy, Debug, PartialEq";
    if let Mutation::BadField(b) = m {
        let pos = src.pick(fields.len());
        let bad = BAD[b % BAD.len()];
        fields[pos] = (bad.0.to_string(), bad.1.to_string());
        what = format!("field {} replaced by {} ({})", pos, bad.0, bad.2);
        // a type with a non-Copy field cannot derive Copy; leave Copy out there. Where the replacement is
        // itself `Copy`, keep it so that the crate's own zero-copy checks (not `Copy`) are what is probed.
        let copyable = matches!(bad.0, "DeepPlainCopy" | "DeepAttrCopy" | "Option<u32>" | "&'static [u8]" | "&'static str" | "RefHolder" | "core::ops::Bound<u32>");
        derives = if copyable { "Epserde, Clone, Copy, Debug" } else { "Epserde, Clone, Debug" };
    }
    if m == Mutation::BadInArrayOfStruct {
        let pos = src.pick(fields.len());
        fields[pos] = ("[DeepS; 2]".to_string(), "[DeepS { v: vec![1] }, DeepS { v: vec![2, 3] }]".to_string());
        what = "field replaced by an array of deep structs".to_string();
        derives = "Epserde, Clone, Debug";
    }
    // the attribute order is a generated choice too (shared by the twin and its mutant)
    let swapped = src.chance(1, 2);
    let attrs = match m {
        Mutation::DropReprC => {
            what = "repr(C) dropped".into();
            "#[zero_copy]".to_string()
        }
        Mutation::ReprRust => {
            what = "repr(C) replaced by repr(Rust)".into();
            "#[repr(Rust)]\n#[zero_copy]".to_string()
        }
        Mutation::BothAttrs => {
            what = "declared both zero_copy and deep_copy".into();
            if swapped { "#[deep_copy]\n#[zero_copy]\n#[repr(C)]".to_string() } else { "#[repr(C)]\n#[zero_copy]\n#[deep_copy]".to_string() }
        }
        _ => {
            if swapped {
                "#[zero_copy]\n/// documented\n#[repr(C)]".to_string()
            } else {
                "#[repr(C)]\n#[zero_copy]".to_string()
            }
        }
    };
    let names = ["a", "b", "c", "d", "e"];
    let (body, value) = if is_enum {
        let (vdef, vval) = if tuple {
            (format!("V({})", fields.iter().map(|f| f.0.clone()).collect::<Vec<_>>().join(", ")), format!("T::V({})", fields.iter().map(|f| f.1.clone()).collect::<Vec<_>>().join(", ")))
        } else {
            (
                format!("V {{ {} }}", fields.iter().enumerate().map(|(i, f)| format!("{}: {}", names[i], f.0)).collect::<Vec<_>>().join(", ")),
                format!("T::V {{ {} }}", fields.iter().enumerate().map(|(i, f)| format!("{}: {}", names[i], f.1)).collect::<Vec<_>>().join(", ")),
            )
        };
        (format!("pub enum T {{ U, {}, W(u8) }}", vdef), vval)
    } else if tuple {
        (format!("pub struct T({});", fields.iter().map(|f| format!("pub {}", f.0)).collect::<Vec<_>>().join(", ")), format!("T({})", fields.iter().map(|f| f.1.clone()).collect::<Vec<_>>().join(", ")))
    } else {
        (
            format!("pub struct T {{ {} }}", fields.iter().enumerate().map(|(i, f)| format!("pub {}: {}", names[i], f.0)).collect::<Vec<_>>().join(", ")),
            format!("T {{ {} }}", fields.iter().enumerate().map(|(i, f)| format!("{}: {}", names[i], f.1)).collect::<Vec<_>>().join(", ")),
        )
    };
    let source = format!("#[derive({})]\n{}\n{}\n", derives, attrs, body);
    (Def { source, value, ty: "T".into() }, what)
}

fn probe_source(d: &Def, twin: bool) -> String {
    let mut s = String::from(PRELUDE);
    s.push_str(&d.source);
    s.push_str("\nfn main() {\n");
    s.push_str(&format!("    let v: {} = {};\n", d.ty, d.value));
    s.push_str("    let mut sink = CountSink(0);\n");
    // the header carries the name of the serialization type (e.g. Vec<T> for a slice reference)
    s.push_str(&format!("    let header = 29 + 8 + core::any::type_name::<<{} as epserde::ser::SerializeInner>::SerType>().len();\n", d.ty));
    s.push_str("    std::panic::set_hook(Box::new(|_| {}));\n");
    s.push_str("    let r = std::panic::catch_unwind(std::panic::AssertUnwindSafe(|| v.serialize(&mut sink).is_ok()));\n");
    s.push_str("    let tag = match r { Ok(true) => \"ok\", Ok(false) => \"err\", Err(_) => \"panic\" };\n");
    if twin {
        s.push_str("    let mut buf: Vec<u8> = Vec::new();\n    v.serialize(&mut buf).unwrap();\n");
        s.push_str(&format!("    let back = <{}>::deserialize_full(&mut std::io::Cursor::new(&buf[..])).unwrap();\n", d.ty));
        s.push_str("    println!(\"RESULT {} bytes={} header={} roundtrip={}\", tag, sink.0, header, back == v);\n");
    } else {
        s.push_str("    println!(\"RESULT {} bytes={} header={}\", tag, sink.0, header);\n");
    }
    s.push_str("}\n");
    s
}

/// The same attempt made from a destructor while the thread is unwinding from an unrelated panic (a structure
/// that stores itself when it goes out of scope). A second panic there aborts the process, which also stops the
/// value from being written; every write the sink receives is logged on its own line first.
fn probe_source_unwinding(d: &Def) -> String {
    let mut s = String::from(PRELUDE);
    s.push_str(&d.source);
    s.push_str("\npub struct LogSink;\nimpl std::io::Write for LogSink {\n    fn write(&mut self, b: &[u8]) -> std::io::Result<usize> { println!(\"W {}\", b.len()); Ok(b.len()) }\n    fn flush(&mut self) -> std::io::Result<()> { Ok(()) }\n}\n");
    s.push_str(&format!("pub struct Guard(pub Option<{}>);\nimpl Drop for Guard {{\n    fn drop(&mut self) {{\n        let v = self.0.take().unwrap();\n", d.ty));
    s.push_str(&format!("        let header = 29 + 8 + core::any::type_name::<<{} as epserde::ser::SerializeInner>::SerType>().len();\n", d.ty));
    s.push_str("        println!(\"START header={} unwinding={}\", header, std::thread::panicking());\n");
    s.push_str("        let r = v.serialize(&mut LogSink).is_ok();\n");
    s.push_str("        println!(\"RESULT {}\", if r { \"ok\" } else { \"err\" });\n    }\n}\n");
    s.push_str("\nfn main() {\n    std::panic::set_hook(Box::new(|_| {}));\n");
    s.push_str(&format!("    let _ = std::panic::catch_unwind(|| {{\n        let _g = Guard(Some({}));\n        panic!(\"unrelated failure\");\n    }});\n}}\n", d.value));
    s
}

pub fn run(opts: &Opts, pi: &PropInfo) -> i32 {
    let start = std::time::Instant::now();
    let n_pairs = if opts.tier == "thorough" { 260 } else { 64 };
    let s = vmodel::mix_seed(&["C17"], opts.seed);
    let mut runner = TestRunner::new(Config { failure_persistence: None, rng_seed: RngSeed::Fixed(s), ..Config::default() });
    let choices = vmodel::gen::choices(n_pairs * 40).new_tree(&mut runner).expect("choices").current();
    let mut src = Src::new(&choices);
    let mut probes: Vec<Probe> = vec![];
    let mut meta: Vec<(String, bool, String)> = vec![]; // name, twin, what
    let replay_src = opts.replay.as_ref().and_then(|p| crate::read_json(&p.to_string_lossy())).and_then(|r| r["env"]["source"].as_str().map(|s| s.to_string()));
    if let Some(srcx) = &replay_src {
        probes.push(Probe { name: "c17_bad_replay".into(), source: srcx.clone() });
        meta.push(("c17_bad_replay".into(), false, "replayed definition".into()));
    }
    if replay_src.is_none() {
        // the same holder with a byte-sized alignment unit (a packed pointer holder): paths that treat "unit 1" as
        // "plain bytes" must still refuse it
        let handle1 = HANDLE.replace("pub struct Handle(", "#[repr(packed)]\npub struct Handle(").replace("fn max_size_of() -> usize { core::mem::size_of::<usize>() }", "fn max_size_of() -> usize { 1 }");
        for (k, (defs, ty, val, what)) in HANDLE_USES.iter().enumerate().filter(|(_, u)| !u.1.contains("SerIter") && u.0.is_empty() || u.1.starts_with('&')) {
            let d = Def { source: format!("{}{}", handle1, defs), value: val.to_string(), ty: ty.to_string() };
            probes.push(Probe { name: format!("c17_bad_handle1_{}", k), source: probe_source(&d, false) });
            meta.push((format!("c17_bad_handle1_{}", k), false, format!("{} (packed, alignment unit 1)", what)));
        }
        for (k, (defs, ty, val, what)) in HANDLE_USES.iter().enumerate() {
            let d = Def { source: format!("{}{}", HANDLE, defs), value: val.to_string(), ty: ty.to_string() };
            probes.push(Probe { name: format!("c17_bad_handle_{}", k), source: probe_source(&d, false) });
            meta.push((format!("c17_bad_handle_{}", k), false, what.to_string()));
            if !ty.contains("SerIter") && !ty.starts_with('&') {
                probes.push(Probe { name: format!("c17_bad_unwind_{}", k), source: probe_source_unwinding(&d) });
                meta.push((format!("c17_bad_unwind_{}", k), false, format!("{}, serialized from a destructor during unwinding", what)));
            }
        }
    }
    for i in 0..(if replay_src.is_some() { 0 } else { n_pairs }) {
        // the mutation classes are cycled so that each one is exercised in every run
        let m = match i % 8 {
            0..=3 => Mutation::BadField(i / 8 * 4 + i % 8),
            4 => Mutation::BadField(src.pick(BAD.len())),
            5 => [Mutation::DropReprC, Mutation::ReprRust][src.pick(2)],
            6 => Mutation::BothAttrs,
            _ => Mutation::BadInArrayOfStruct,
        };
        // twin and mutant share the shape choices: decode the same choice window twice
        let window: Vec<u32> = (0..24).map(|_| (src.pick(1 << 16) as u32) << 16 | src.pick(1 << 16) as u32).collect();
        let (twin, _) = gen_def(&mut Src::new(&window), Mutation::None);
        let (bad, what) = gen_def(&mut Src::new(&window), m);
        probes.push(Probe { name: format!("c17_twin_{}", i), source: probe_source(&twin, true) });
        meta.push((format!("c17_twin_{}", i), true, "valid twin".into()));
        probes.push(Probe { name: format!("c17_bad_{}", i), source: probe_source(&bad, false) });
        meta.push((format!("c17_bad_{}", i), false, what.clone()));
        // the same two definitions in ONE compilation, the valid one first, under the same name in two modules:
        // whatever the macro remembers about a name must not carry over to the other definition
        if matches!(i % 8, 0 | 5 | 6 | 7) {
            let wrap = |d: &Def, m: &str| format!("pub mod {} {{\n    use super::*;\n{}\n}}\n", m, d.source);
            let both = Def { source: format!("{}{}", wrap(&twin, "good"), wrap(&bad, "bad")), value: bad.value.replace("T::", "bad::T::").replace("T(", "bad::T(").replace("T {", "bad::T {"), ty: "bad::T".into() };
            let mut src_text = probe_source(&both, false);
            // (the valid definition is used too, so that it is expanded and type-checked first)
            src_text = src_text.replace("fn main() {\n", &format!("fn main() {{\n    let g: good::T = {};\n    let mut gs = CountSink(0);\n    let _ = g.serialize(&mut gs);\n", twin.value.replace("T::", "good::T::").replace("T(", "good::T(").replace("T {", "good::T {")));
            probes.push(Probe { name: format!("c17_bad_pair_{}", i), source: src_text });
            meta.push((format!("c17_bad_pair_{}", i), false, format!("{}, after a valid definition of the same name in the same compilation", what)));
        }
    }
    let replay_rel = opts.replay.as_ref().and_then(|p| crate::read_json(&p.to_string_lossy())).map_or(false, |r| r["env"]["mutation"].as_str().map_or(false, |m| m.contains("without debug assertions")));
    let res = match probes::evaluate(if replay_rel { "c17rel" } else { "c17" }, &probes, &|_| true) {
        Ok(r) => r,
        Err(e) => {
            eprintln!("INFRASTRUCTURE: {}", e);
            return 2;
        }
    };
    // the hand-declared pointer holders once more in a build without debug assertions (what guards the run-time
    // path must not be a debug assertion)
    let rel: Vec<Probe> = probes.iter().filter(|p| p.name.starts_with("c17_bad_handle_")).map(|p| Probe { name: format!("{}_rel", p.name), source: p.source.clone() }).collect();
    let mut res = res;
    if !rel.is_empty() {
        match probes::evaluate("c17rel", &rel, &|_| true) {
            Ok(r) => {
                for p in &rel {
                    let what = meta.iter().find(|m| format!("{}_rel", m.0) == p.name).map(|m| m.2.clone()).unwrap_or_default();
                    meta.push((p.name.clone(), false, format!("{}, built without debug assertions", what)));
                }
                res.extend(r);
                probes.extend(rel);
            }
            Err(e) => {
                eprintln!("INFRASTRUCTURE: {}", e);
                return 2;
            }
        }
    }
    let mut agg = Agg::default();
    let mut infra = None;
    let mut distinct = std::collections::BTreeSet::new();
    for ((name, twin, what), p) in meta.iter().zip(&probes) {
        let r = &res[name];
        agg.evaluations += 1;
        if *twin {
            if !r.compiled {
                infra = Some(format!("valid twin {} does not compile: {}", name, probes::first_error_line(r)));
                agg.failures.push(json!({"subject": name, "signature": "harness:twin-does-not-compile", "message": format!("valid zero-copy definition rejected: {}", probes::first_error_line(r)), "val_shown": p.source}));
            } else if !(r.stdout.contains("RESULT ok") && r.stdout.contains("roundtrip=true")) {
                agg.failures.push(json!({"subject": name, "signature": "twin-roundtrip", "message": format!("valid zero-copy twin does not serialize/round-trip: {}", r.stdout.trim()), "val_shown": p.source, "env": {"source": p.source}}));
            }
            *agg.classes.entry("twin-ok".into()).or_default() += 1;
            continue;
        }
        distinct.insert(vmodel::mix_seed(&[&p.source], 0));
        let class = what.split(" (").next().unwrap_or(what).split(" replaced by ").last().unwrap_or(what).to_string();
        if !r.compiled {
            *agg.classes.entry("rejected-at-compile-time".into()).or_default() += 1;
            *agg.classes.entry(format!("mutation: {}", class)).or_default() += 1;
            if agg.samples.len() < 6 {
                agg.samples.push(json!({"probe": name, "mutation": what, "outcome": "rejected at compile time", "first_error": probes::first_error_line(r), "definition": p.source.split(PRELUDE).last().unwrap_or("").lines().take(6).collect::<Vec<_>>().join("\n")}));
            }
            continue;
        }
        // compiled: must panic (or fail) before any byte of the value is written
        let out = r.stdout.trim().to_string();
        let get = |k: &str| out.split_whitespace().find_map(|t| t.strip_prefix(k)).and_then(|x| x.parse::<usize>().ok());
        let (bytes, header) = (get("bytes="), get("header="));
        let ok = if p.source.contains("pub struct LogSink") {
            // bytes the sink received (one line per write) against the header length announced before serializing
            let written: usize = out.lines().filter_map(|l| l.strip_prefix("W ")).filter_map(|x| x.trim().parse::<usize>().ok()).sum();
            out.contains("START") && out.contains("unwinding=true") && !out.contains("RESULT ok") && header.map_or(false, |h| written <= h)
        } else {
            !out.contains("RESULT ok") && matches!((bytes, header), (Some(b), Some(h)) if b <= h)
        };
        if ok {
            *agg.classes.entry("panicked-before-value-bytes".into()).or_default() += 1;
            *agg.classes.entry(format!("mutation: {}", class)).or_default() += 1;
            if agg.samples.len() < 10 {
                agg.samples.push(json!({"probe": name, "mutation": what, "outcome": out}));
            }
        } else {
            agg.failures.push(json!({
                "subject": name, "signature": format!("invalid-zero-copy-serialized:{}", class),
                "message": format!("definition wrongly declared zero-copy ({}) compiled and serialization did not stop before the value: {}", what, out),
                "val_shown": p.source.split(PRELUDE).last().unwrap_or(""), "env": {"source": p.source, "mutation": what},
            }));
        }
    }
    agg.nontrivial_extra = distinct.len() as u64;
    agg.subjects = probes.len() as u64;
    props::finish(opts, pi, agg, start, infra)
}
