//! C09: run-time part (subject programs, single-threaded) + compile-time lifetime probes.

use crate::build;
use crate::evidence::Agg;
use crate::probes::{self, Probe};
use crate::props::{self, PropInfo};
use crate::Opts;
use serde_json::json;

const PRELUDE: &str = r#"#![allow(dead_code, unused_imports, unused_variables)]
use epserde::prelude::*;

#[derive(Epserde, Clone, Copy, Debug, PartialEq)]
#[repr(C)]
#[zero_copy]
pub struct Z { pub a: u64, pub b: u32 }

#[derive(Epserde, Clone, Debug, PartialEq)]
pub struct D<A> { pub a: A, pub n: u32 }

fn bytes_of<T: Serialize>(t: &T) -> Vec<u8> {
    let mut c = <AlignedCursor<maligned::A64>>::new();
    t.serialize(&mut c).unwrap();
    let n = c.len();
    let mut v = vec![0u8; n + 64];
    let off = (64 - (v.as_ptr() as usize) % 64) % 64;
    v[off..off + n].copy_from_slice(c.as_bytes());
    v.drain(..off);
    v.truncate(n);
    v
}
/// the bytes of a slice of words, with the lifetime of the slice
fn as_bytes<'a>(w: &'a [u64]) -> &'a [u8] {
    unsafe { core::slice::from_raw_parts(w.as_ptr() as *const u8, w.len() * 8) }
}
fn file_of<T: Serialize>(t: &T, name: &str) -> std::path::PathBuf {
    let p = std::env::temp_dir().join(format!("c09-probe-{}-{}", std::process::id(), name));
    t.store(&p).unwrap();
    p
}
"#;

struct Case {
    /// type serialized
    ty: &'static str,
    /// expression building the value
    val: &'static str,
    /// ε-copy type with lifetime 'static spelled out
    deser_static: &'static str,
    /// how to reach a `&'static` borrow from `x: &DeserType`
    path: &'static str,
    /// type of that borrow
    borrow: &'static str,
    /// expression reading through the borrow `s`
    read: &'static str,
}

const CASES: &[Case] = &[
    Case { ty: "Vec<u64>", val: "vec![1u64, 2, 3]", deser_static: "&'static [u64]", path: "*x", borrow: "&'static [u64]", read: "s[0]" },
    Case { ty: "String", val: "String::from(\"hello\")", deser_static: "&'static str", path: "*x", borrow: "&'static str", read: "s.len()" },
    Case { ty: "Z", val: "Z { a: 7, b: 9 }", deser_static: "&'static Z", path: "*x", borrow: "&'static Z", read: "s.a" },
    Case { ty: "D<Vec<u64>>", val: "D { a: vec![5u64; 10], n: 1 }", deser_static: "D<&'static [u64]>", path: "x.a", borrow: "&'static [u64]", read: "s[0]" },
    Case { ty: "Vec<String>", val: "vec![String::from(\"a\"), String::from(\"bc\")]", deser_static: "Vec<&'static str>", path: "x[1]", borrow: "&'static str", read: "s.len()" },
];

fn probes() -> Vec<(Probe, String, bool, bool)> {
    // (probe, access-path class, must_not_compile, is_twin)
    let mut v = vec![];
    let mut add = |name: String, class: &str, body: String, neg: bool, twin: bool| {
        v.push((Probe { name, source: format!("{}\nfn main() {{\n{}\n}}\n", PRELUDE, body) }, class.to_string(), neg, twin));
    };
    for (i, c) in CASES.iter().enumerate() {
        let bind = |s: &str| s.replace("*x", "e").replace("x.", "e.").replace("x[", "e[");
        // ε-copy result after the buffer's scope
        add(
            format!("c09_scope_{}", i),
            "eps-after-buffer-scope",
            format!("    let s;\n    {{\n        let buf = bytes_of(&{val});\n        let e = <{ty}>::deserialize_eps(&buf).unwrap();\n        s = {p};\n    }}\n    println!(\"{{:?}}\", {read});", val = c.val, ty = c.ty, p = bind(c.path), read = c.read),
            true,
            false,
        );
        add(
            format!("c09_scope_twin_{}", i),
            "eps-after-buffer-scope",
            format!("    let buf = bytes_of(&{val});\n    let e = <{ty}>::deserialize_eps(&buf).unwrap();\n    let s = {p};\n    println!(\"{{:?}}\", {read});", val = c.val, ty = c.ty, p = bind(c.path), read = c.read),
            false,
            true,
        );
        // returned from the function owning the buffer
        add(
            format!("c09_return_{}", i),
            "eps-returned-from-owner",
            format!("    fn f() -> {b} {{\n        let buf = bytes_of(&{val});\n        let e = <{ty}>::deserialize_eps(&buf).unwrap();\n        {p}\n    }}\n    let s = f();\n    println!(\"{{:?}}\", {read});", b = c.borrow, val = c.val, ty = c.ty, p = bind(c.path), read = c.read),
            true,
            false,
        );
        // required to be 'static (thread / static storage)
        add(
            format!("c09_static_{}", i),
            "eps-required-static",
            format!("    fn needs_static(_: {b}) {{}}\n    let buf = bytes_of(&{val});\n    let e = <{ty}>::deserialize_eps(&buf).unwrap();\n    needs_static({p});", b = c.borrow, val = c.val, ty = c.ty, p = bind(c.path)),
            true,
            false,
        );
        add(
            format!("c09_thread_{}", i),
            "eps-sent-to-thread",
            format!("    let buf = bytes_of(&{val});\n    let e = <{ty}>::deserialize_eps(&buf).unwrap();\n    let s = {p};\n    std::thread::spawn(move || {{ println!(\"{{:?}}\", {read}); }}).join().unwrap();", val = c.val, ty = c.ty, p = bind(c.path), read = c.read),
            true,
            false,
        );
        // borrow tied to the case itself (ordinary borrow checking; negative control that must hold)
        add(
            format!("c09_caseborrow_{}", i),
            "memcase-borrow-of-case",
            format!("    let p = file_of(&{val}, \"cb{i}\");\n    let case = <{ty}>::load_mem(&p).unwrap();\n    let x: &{d} = &case;\n    drop(case);\n    let _ = x;\n    std::fs::remove_file(p).ok();", val = c.val, ty = c.ty, d = c.deser_static, i = i),
            true,
            false,
        );
        // copying a borrowed part out of a MemCase and dropping the case: Deref, AsRef, field/element copy
        for (loader, lname) in [("load_mem(&p)", "mem"), ("mmap(&p, Flags::empty())", "mmap"), ("load_mmap(&p, Flags::empty())", "loadmmap")] {
            for (acc, aname, class) in [("&*case", "deref", "memcase-deref-copy"), ("case.as_ref()", "asref", "memcase-asref-copy")] {
                add(
                    format!("c09_escape_{}_{}_{}", lname, aname, i),
                    class,
                    format!(
                        "    let p = file_of(&{val}, \"{lname}{aname}{i}\");\n    let case = <{ty}>::{loader}.unwrap();\n    let x: &{d} = {acc};\n    let s: {b} = {path};\n    drop(case);\n    std::fs::remove_file(p).ok();\n    println!(\"STALE {{:?}}\", {read});",
                        val = c.val, ty = c.ty, loader = loader, d = c.deser_static, acc = acc, b = c.borrow, path = c.path, read = c.read, lname = lname, aname = aname, i = i
                    ),
                    true,
                    false,
                );
            }
        }
        add(
            format!("c09_case_twin_{}", i),
            "memcase-deref-copy",
            format!("    let p = file_of(&{val}, \"tw{i}\");\n    let case = <{ty}>::load_mem(&p).unwrap();\n    let x: &{d} = &case;\n    let s: {b} = {path};\n    println!(\"{{:?}}\", {read});\n    drop(case);\n    std::fs::remove_file(p).ok();", val = c.val, ty = c.ty, d = c.deser_static, b = c.borrow, path = c.path, read = c.read, i = i),
            false,
            true,
        );
    }
    // the public helper functions that reinterpret buffer memory: the borrow they return is tied to the buffer
    for (i, (elem, call, read)) in [
        ("u64", "epserde::deser::helpers::deserialize_eps_slice_zero::<u64>(&mut b).unwrap()", "s[0]"),
        ("Z", "epserde::deser::helpers::deserialize_eps_slice_zero::<Z>(&mut b).unwrap()", "s[0].a"),
        ("u64", "core::slice::from_ref(epserde::deser::helpers::deserialize_eps_zero::<u64>(&mut b).unwrap())", "s[0]"),
    ]
    .iter()
    .enumerate()
    {
        let setup = "        let mut buf = vec![0u64; 8];
        buf[0] = 3;
        buf[1] = 0xAA;
        let bytes: &[u8] = as_bytes(&buf);
        let mut b = epserde::deser::SliceWithPos::new(bytes);
";
        add(
            format!("c09_helper_return_{}", i),
            "helper-returned-from-owner",
            format!("    fn f() -> &'static [{e}] {{
{setup}        {call}
    }}
    let s = f();
    println!(\"{{:?}}\", {read});", e = elem, setup = setup, call = call, read = read),
            true,
            false,
        );
        add(
            format!("c09_helper_twin_{}", i),
            "helper-returned-from-owner",
            format!("    {{
{setup}        let s: &[{e}] = {call};
        println!(\"{{:?}}\", {read});
    }}", e = elem, setup = setup, call = call, read = read),
            false,
            true,
        );
    }
    v
}

pub fn run(opts: &Opts, pi: &PropInfo) -> i32 {
    let start = std::time::Instant::now();
    let mut agg = Agg::default();
    let mut infra = None;
    // ---- run-time part
    let labels = if let Some(r) = &opts.replay {
        let rj = crate::read_json(&r.to_string_lossy()).unwrap_or_default();
        if rj["env"]["probe"].is_string() {
            vec![]
        } else {
            if rj["variant"].as_str() == Some("-nommap") {
                build::set_variant("-nommap");
            }
            vec![rj["universe"].as_str().unwrap_or("fixed").to_string()]
        }
    } else {
        props::universes_for(opts)
    };
    if !labels.is_empty() {
        match build::prepare(opts, &labels) {
            Ok(us) => {
                for (label, u) in &us {
                    let mut extra = vec!["--threads".to_string(), "1".to_string()];
                    if let Some(r) = &opts.replay {
                        extra.push("--replay".into());
                        extra.push(r.to_string_lossy().to_string());
                    }
                    match build::run_bin(label, "C09", opts, &extra) {
                        Ok(mut r) => {
                            if let Some(fs) = r["failures"].as_array_mut() {
                                for f in fs.iter_mut() {
                                    f["universe"] = json!(label);
                                }
                            }
                            agg.add_report(&r);
                            agg.universes.push(json!({"label": label, "definitions": u.adts.len(), "subjects": u.subjects.len(), "wall_s": r["wall_s"]}));
                        }
                        Err(e) => infra = Some(e),
                    }
                }
            }
            Err(e) => {
                eprintln!("INFRASTRUCTURE: {}", e);
                return 2;
            }
        }
    }
    // ---- the same failure paths with epserde built without the mmap feature (load_full / load_mem only)
    if opts.replay.is_none() {
        build::set_variant("-nommap");
        match build::prepare(opts, &["fixed".to_string()]) {
            Ok(us) => {
                for (label, u) in &us {
                    match build::run_bin(label, "C09", opts, &["--threads".to_string(), "1".to_string()]) {
                        Ok(mut r) => {
                            if let Some(fs) = r["failures"].as_array_mut() {
                                for f in fs.iter_mut() {
                                    f["universe"] = json!(label);
                                    f["variant"] = json!("-nommap");
                                    f["message"] = json!(format!("[epserde built without the mmap feature] {}", f["message"].as_str().unwrap_or("")));
                                }
                            }
                            agg.add_report(&r);
                            agg.universes.push(json!({"label": format!("{} (no-mmap build)", label), "definitions": u.adts.len(), "subjects": u.subjects.len(), "wall_s": r["wall_s"]}));
                        }
                        Err(e) => infra = Some(e),
                    }
                }
            }
            Err(e) => infra = Some(format!("no-mmap configuration: {}", e)),
        }
        build::set_variant("");
    }
    // ---- compile-time part
    if opts.replay.is_none() || labels.is_empty() {
        let ps = probes();
        let list: Vec<Probe> = ps.iter().map(|p| p.0.clone()).collect();
        match probes::evaluate("c09", &list, &|n| n.contains("_escape_")) {
            Err(e) => infra = Some(e),
            Ok(res) => {
                for (p, class, neg, twin) in &ps {
                    let r = &res[&p.name];
                    agg.evaluations += 1;
                    *agg.classes.entry(format!("probe:{}", class)).or_default() += 1;
                    if *twin {
                        if !r.compiled {
                            agg.failures.push(json!({"subject": p.name, "signature": "harness:twin-does-not-compile", "message": format!("positive twin does not compile: {}", probes::first_error_line(r)), "env": {"probe": p.name, "source": p.source}}));
                        }
                        continue;
                    }
                    agg.nontrivial.insert(format!("probe:{}", p.name));
                    if *neg && r.compiled {
                        let stale = if r.run_status.is_none() { "the program died with a signal when it read through the stale borrow".to_string() } else { format!("the program ran on and printed {:?}", r.stdout.trim()) };
                        agg.failures.push(json!({
                            "subject": p.name,
                            "signature": format!("static-escape:{}", class),
                            "message": format!("safe program keeping borrowed data past its owner compiles (access path: {}); {}", class, stale),
                            "env": {"probe": p.name, "class": class, "source": p.source.split(PRELUDE).last().unwrap_or("")},
                            "val_shown": p.source.split(PRELUDE).last().unwrap_or(""),
                        }));
                    } else if agg.samples.len() < 20 && p.name.ends_with("_0") {
                        agg.samples.push(json!({"probe": p.name, "class": class, "outcome": if r.compiled { "compiles" } else { "rejected by the compiler" }, "first_error": probes::first_error_line(r), "body": p.source.split(PRELUDE).last().unwrap_or("")}));
                    }
                }
            }
        }
    }
    props::finish(opts, pi, agg, start, infra)
}
