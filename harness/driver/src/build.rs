//! Universe generation, rendering of the subjects crate, cargo invocation, running subject bins.

use crate::{Opts, HARNESS, REPO, WORK};
use proptest::strategy::{Strategy, ValueTree};
use proptest::test_runner::{Config, RngSeed, TestRunner};
use serde_json::Value;
use std::collections::BTreeMap;
use std::path::{Path, PathBuf};
use std::process::Command;
use vmodel::gen::{self, UniCfg};
use vmodel::ty::Universe;

pub fn uni_cfg(tier: &str) -> UniCfg {
    let _ = tier;
    UniCfg { n_adts: 45, n_builtin_subjects: 45, ..UniCfg::default() }
}

/// The `k`-th seeded universe of a run. Randomness comes from a proptest strategy with a fixed seed.
pub fn seeded_universe(seed: u64, k: u64, tier: &str) -> (Universe, usize) {
    let s = vmodel::mix_seed(&["universe", &k.to_string()], seed);
    let mut runner = TestRunner::new(Config { failure_persistence: None, rng_seed: RngSeed::Fixed(s), ..Config::default() });
    let choices = gen::choices(6000).new_tree(&mut runner).expect("choices").current();
    let label = if k == 0 { format!("s{}", seed) } else { format!("s{}k{}", seed, k) };
    gen::universe_from(&choices, uni_cfg(tier), &label)
}

pub fn fixed_universe() -> Universe {
    let p = format!("{}/fixed_universe/universe.json", HARNESS);
    serde_json::from_str(&std::fs::read_to_string(&p).unwrap_or_else(|_| panic!("missing {}", p))).expect("fixed universe json")
}

/// A universe extended with near-miss mutants (C04): label `m<base label>`.
pub fn mutant_universe(mut u: Universe, seed: u64) -> Universe {
    let s = vmodel::mix_seed(&["mutants", &u.label], seed);
    let mut runner = TestRunner::new(Config { failure_persistence: None, rng_seed: RngSeed::Fixed(s), ..Config::default() });
    let choices = gen::choices(4000).new_tree(&mut runner).expect("choices").current();
    let mut src = gen::Src::new(&choices);
    u.label = format!("m{}", u.label);
    let n_subjects = u.subjects.len();
    vmodel::mutate::add_mutants(&mut u, &mut src, 2, 2);
    vmodel::mutate::add_unit_variant_mutants(&mut u, 8);
    vmodel::mutate::add_align_pairs(&mut u, 12);
    vmodel::mutate::add_twins(&mut u, &mut src, 6);
    // one dedicated pair per layout-only mutant below `Bound`, whose alignment hash does not recurse (O9)
    let layout_mutants: Vec<(usize, usize)> = u
        .adts
        .iter()
        .enumerate()
        .filter(|(_, d)| d.mutation.as_deref().map_or(false, |m| m.starts_with("repr(")) && d.params.is_empty())
        .map(|(i, d)| (d.mutant_of.unwrap(), i))
        .take(3)
        .collect();
    for (orig, mutant) in layout_mutants {
        use vmodel::ty::Ty;
        let (a, b) = (Ty::bound(Ty::adt(orig, vec![])), Ty::bound(Ty::adt(mutant, vec![])));
        if vmodel::gen::has_zst_block(&u, &a) || vmodel::gen::zst_like(&u, &Ty::adt(orig, vec![])) {
            continue;
        }
        u.subjects.push(a);
        u.subjects.push(b);
        u.pairs.push((u.subjects.len() - 2, u.subjects.len() - 1));
    }
    // a definition whose type-hash input runs to several kilobytes, and copies that differ from it only in the very
    // last field (a hash that stops looking after some kilobytes cannot tell them apart)
    {
        use vmodel::ty::{AdtDef, Body, CopyKind, Fields, Prim, Ty};
        let fields: Vec<(String, Ty)> = (0..400)
            .map(|i| {
                (format!("field_number_{}", i), match i % 5 {
                    0 => Ty::Prim(Prim::U8),
                    1 => Ty::Prim(Prim::U64),
                    2 => Ty::String,
                    3 => Ty::vec(Ty::Prim(Prim::U16)),
                    _ => Ty::Prim(Prim::U32),
                })
            })
            .collect();
        let mk = |module: &str, fields: Vec<(String, Ty)>, of: Option<usize>, what: Option<&str>| AdtDef {
            name: "Many400".into(),
            module: module.into(),
            copy: CopyKind::DeepPlain,
            reprs: vec![],
            params: vec![],
            where_preds: vec![],
            body: Body::Struct(Fields::Named(fields)),
            mutant_of: of,
            mutation: what.map(|w| w.to_string()),
        };
        u.adts.push(mk("", fields.clone(), None, None));
        let base = u.adts.len() - 1;
        let mut f1 = fields.clone();
        f1[399].1 = Ty::Prim(Prim::I32);
        let mut f2 = fields.clone();
        f2[399].0 = "field_number_399x".into();
        let mut f3 = fields.clone();
        f3.swap(397, 399);
        u.subjects.push(Ty::adt(base, vec![]));
        let sb = u.subjects.len() - 1;
        for (k, (f, what)) in [(f1, "last of 400 fields: u32 replaced by same-size i32"), (f2, "last of 400 fields renamed"), (f3, "fields 397 and 399 of 400 swapped")].into_iter().enumerate() {
            u.adts.push(mk(&format!("mm{}", k), f, Some(base), Some(what)));
            u.subjects.push(Ty::adt(u.adts.len() - 1, vec![]));
            u.pairs.push((sb, u.subjects.len() - 1));
        }
    }
    // the same definition with a different value of one const generic argument
    for si in 0..n_subjects {
        let t = u.subjects[si].clone();
        for m in vmodel::mutate::const_value_variants(&u, &t).into_iter().take(2) {
            let ti = match u.subjects.iter().position(|x| *x == m) {
                Some(p) => p,
                None => {
                    u.subjects.push(m);
                    u.subjects.len() - 1
                }
            };
            if ti != si {
                u.pairs.push((si, ti));
            }
        }
    }
    // near misses of built-in compositions
    for si in 0..n_subjects.min(160) {
        let t = u.subjects[si].clone();
        for m in vmodel::mutate::builtin_near_misses(&u, &t).into_iter().take(3) {
            let ti = match u.subjects.iter().position(|x| *x == m) {
                Some(p) => p,
                None => {
                    u.subjects.push(m);
                    u.subjects.len() - 1
                }
            };
            if ti != si {
                u.pairs.push((si, ti));
            }
        }
    }
    u
}

pub fn universe_by_label(label: &str, opts: &Opts) -> Universe {
    if label == "fixed" {
        return fixed_universe();
    }
    if label == "extra" {
        return vmodel::fixedgen::extra_universe();
    }
    if label == "zst" {
        return vmodel::fixedgen::zst_universe();
    }
    if label == "wide" {
        return vmodel::fixedgen::wide_universe();
    }
    if label == "huge" {
        return vmodel::fixedgen::huge_universe();
    }
    if label == "deep" {
        return vmodel::fixedgen::deep_universe();
    }
    if label == "odd" {
        return vmodel::fixedgen::odd_universe();
    }
    if label == "replay" {
        let r = opts.replay.as_ref().and_then(|p| crate::read_json(&p.to_string_lossy())).expect("replay file");
        let mut u: Universe = serde_json::from_value(r["universe_inline"].clone()).expect("universe_inline");
        u.label = "replay".into();
        return u;
    }
    if let Some(base) = label.strip_prefix('m') {
        let b = if base == "fixed" {
            let mut f = fixed_universe();
            // the hand-written part and its subjects keep the program small
            f.subjects.truncate(200);
            f
        } else {
            let rest = &base[1..];
            let (sd, k) = match rest.split_once('k') {
                Some((s, k)) => (s.parse::<u64>().unwrap(), k.parse::<u64>().unwrap()),
                None => (rest.parse::<u64>().unwrap(), 0),
            };
            let s = vmodel::mix_seed(&["universe-c04", &k.to_string()], sd);
            let mut runner = TestRunner::new(Config { failure_persistence: None, rng_seed: RngSeed::Fixed(s), ..Config::default() });
            let choices = gen::choices(5000).new_tree(&mut runner).expect("choices").current();
            gen::universe_from(&choices, UniCfg { n_adts: 30, n_builtin_subjects: 30, ..UniCfg::default() }, base).0
        };
        return mutant_universe(b, opts.seed);
    }
    // s<seed> or s<seed>k<k>
    let rest = &label[1..];
    let (s, k) = match rest.split_once('k') {
        Some((s, k)) => (s.parse::<u64>().unwrap(), k.parse::<u64>().unwrap()),
        None => (rest.parse::<u64>().unwrap(), 0),
    };
    seeded_universe(s, k, &opts.tier).0
}

fn write_if_changed(p: &Path, content: &str) {
    if std::fs::read_to_string(p).ok().as_deref() == Some(content) {
        return;
    }
    if let Some(d) = p.parent() {
        std::fs::create_dir_all(d).ok();
    }
    std::fs::write(p, content).unwrap();
}

static VARIANT: std::sync::RwLock<&'static str> = std::sync::RwLock::new("");

/// Build/run variant of the subjects crate: "" (default features, tracking allocator), "-nommap"
/// (epserde without the `mmap` feature), "-asan" (nightly, AddressSanitizer, no tracking allocator).
pub fn set_variant(v: &'static str) {
    *VARIANT.write().unwrap() = v;
}
pub fn variant() -> &'static str {
    *VARIANT.read().unwrap()
}

pub fn subjects_dir(variant: &str) -> PathBuf {
    PathBuf::from(format!("{}/subjects{}", WORK, variant))
}

pub fn universe_json_path(label: &str) -> String {
    format!("{}/universes/{}.json", WORK, label)
}

const PROFILE: &str = r#"
[profile.dev]
opt-level = 1
debug = 1
overflow-checks = true
debug-assertions = true

[profile.release]
opt-level = 2
overflow-checks = true
debug-assertions = true

# the generated program itself is compiled without optimisation: it is large and rebuilt on every change of /repo
"#;

/// Write the subjects crate for the given universes. `variant`: "" (default features) or "-nommap".
pub fn write_crate(universes: &[(String, Universe)], variant: &str) -> PathBuf {
    let dir = subjects_dir(variant);
    let features = match variant {
        "-nommap" => "default-features = false, features = [\"track_alloc\"]",
        "-asan" => "default-features = false, features = [\"mmap\"]",
        _ => "default-features = true",
    };
    // "-rel": everything the program links (epserde included) is built without debug assertions and overflow
    // checks, as a release build of a user's program would be
    let profile = if variant == "-rel" { PROFILE.replace("overflow-checks = true", "overflow-checks = false").replace("debug-assertions = true", "debug-assertions = false").replace("opt-level = 1", "opt-level = 2") } else { PROFILE.to_string() };
    let toml = format!(
        r#"[package]
name = "vsubjects{v}"
version = "0.1.0"
edition = "2021"

[workspace]

[dependencies]
vmodel = {{ path = "{h}/model" }}
voracles = {{ path = "{h}/oracles", {features} }}
epserde = {{ path = "{r}/epserde", default-features = false, features = ["std", "derive"] }}

# epserde depends on its derive crate by version; use the working tree's copy, not the registry's
[patch.crates-io]
epserde-derive = {{ path = "{r}/epserde-derive" }}
{PROFILE}
# the generated program itself is compiled without optimisation: it is large and rebuilt on every change of /repo
[profile.dev.package.vsubjects{v}]
opt-level = 0
debug = 0
"#,
        v = variant.replace('-', "_"),
        h = HARNESS,
        r = REPO,
        features = features,
        PROFILE = profile
    );
    write_if_changed(&dir.join("Cargo.toml"), &toml);
    let lock = std::fs::read_to_string(format!("{}/Cargo.lock", HARNESS)).expect("harness Cargo.lock");
    if std::fs::read_to_string(dir.join("Cargo.lock")).ok().map_or(true, |l| !l.contains("vsubjects") || l.contains("checksum = \"ac80cc78b69765703f48ad93f33b8919cf5d907cda7459ad6ba2919cbbe605dd\"")) {
        // (re)seed the lock file from the harness workspace; cargo completes it offline
        std::fs::write(dir.join("Cargo.lock"), lock).unwrap();
    }
    // remove stale bins
    let bindir = dir.join("src/bin");
    std::fs::create_dir_all(&bindir).ok();
    let keep: Vec<&str> = universes.iter().map(|(l, _)| l.as_str()).collect();
    if let Ok(rd) = std::fs::read_dir(&bindir) {
        for e in rd.flatten() {
            let n = e.file_name().to_string_lossy().to_string();
            if !keep.contains(&n.as_str()) {
                std::fs::remove_dir_all(e.path()).ok();
            }
        }
    }
    for (label, u) in universes {
        let d = bindir.join(label);
        write_if_changed(&d.join("main.rs"), "mod uni;\nfn main() {\n    voracles::runner::main(uni::subjects(), uni::layouts(), uni::seqs());\n}\n");
        write_if_changed(&d.join("uni.rs"), &vmodel::render::program(u));
        write_if_changed(Path::new(&universe_json_path(label)), &serde_json::to_string(u).unwrap());
    }
    dir
}

#[derive(Debug, Default)]
pub struct BuildOutcome {
    pub ok: bool,
    /// per bin: rendered compiler errors
    pub errors: BTreeMap<String, Vec<String>>,
    pub raw_tail: String,
}

pub fn cargo() -> Command {
    let mut c = Command::new("cargo");
    // a compiler that runs away (a change in the library can make rustc materialise a gigantic constant for one of
    // the generated types) fails with an allocation error instead of taking the machine down
    unsafe {
        use std::os::unix::process::CommandExt;
        c.pre_exec(|| {
            let lim = libc::rlimit { rlim_cur: 24 << 30, rlim_max: 24 << 30 };
            libc::setrlimit(libc::RLIMIT_AS, &lim);
            Ok(())
        });
    }
    c.env("CARGO_NET_OFFLINE", "true").env("CARGO_TARGET_DIR", format!("{}/target", WORK)).current_dir(HARNESS);
    c
}

/// Build all bins of the subjects crate; returns per-bin errors.
pub fn cargo_build(dir: &Path, keep_going: bool) -> BuildOutcome {
    let mut c = cargo();
    if variant() == "-asan" {
        c.arg("+nightly");
        c.env("RUSTFLAGS", "-Zsanitizer=address --cfg epserde_verif").env("CARGO_TARGET_DIR", format!("{}/target-asan", WORK));
    }
    if variant() == "-rel" {
        c.env("CARGO_TARGET_DIR", format!("{}/target-rel", WORK));
    }
    c.arg("build").arg("--manifest-path").arg(dir.join("Cargo.toml")).arg("--bins").arg("--message-format=json").arg("--offline");
    if keep_going {
        c.arg("--keep-going");
    }
    if variant() == "-asan" {
        c.arg("--target").arg("x86_64-unknown-linux-gnu");
    }
    let out = c.output().expect("cargo");
    let stdout = String::from_utf8_lossy(&out.stdout);
    let mut res = BuildOutcome { ok: out.status.success(), ..Default::default() };
    for line in stdout.lines() {
        let Ok(v) = serde_json::from_str::<Value>(line) else { continue };
        if v["reason"] == "compiler-message" && v["message"]["level"] == "error" {
            let target = v["target"]["name"].as_str().unwrap_or("?").to_string();
            let rendered = v["message"]["rendered"].as_str().unwrap_or("").to_string();
            res.errors.entry(target).or_default().push(rendered);
        }
    }
    let stderr = String::from_utf8_lossy(&out.stderr);
    res.raw_tail = stderr.lines().rev().take(30).collect::<Vec<_>>().into_iter().rev().collect::<Vec<_>>().join("\n");
    res
}

/// `cargo check` of the subjects crate in `dir`.
pub fn cargo_check(dir: &Path) -> BuildOutcome {
    let mut c = cargo();
    c.arg("check").arg("--manifest-path").arg(dir.join("Cargo.toml")).arg("--bins").arg("--message-format=json").arg("--offline");
    let out = c.output().expect("cargo");
    let stdout = String::from_utf8_lossy(&out.stdout);
    let mut res = BuildOutcome { ok: out.status.success(), ..Default::default() };
    for line in stdout.lines() {
        let Ok(v) = serde_json::from_str::<Value>(line) else { continue };
        if v["reason"] == "compiler-message" && v["message"]["level"] == "error" {
            let target = v["target"]["name"].as_str().unwrap_or("?").to_string();
            res.errors.entry(target).or_default().push(v["message"]["rendered"].as_str().unwrap_or("").to_string());
        }
    }
    res
}

pub fn bin_path(label: &str) -> String {
    match variant() {
        "-asan" => format!("{}/target-asan/x86_64-unknown-linux-gnu/debug/{}", WORK, label),
        "-rel" => format!("{}/target-rel/debug/{}", WORK, label),
        _ => format!("{}/target/debug/{}", WORK, label),
    }
}

/// Environment variables set for the subject programs (see `discovered_env_vars`).
pub static EXTRA_ENV: std::sync::Mutex<Vec<(String, String)>> = std::sync::Mutex::new(Vec::new());

/// Names of environment variables that the library source reads at run time (`var("X")`, `var_os("X")`): the
/// checks are repeated with each of them set, since behaviour must not depend on the environment of the process.
pub fn discovered_env_vars() -> Vec<String> {
    fn walk(dir: &Path, out: &mut Vec<String>) {
        let Ok(rd) = std::fs::read_dir(dir) else { return };
        for e in rd.flatten() {
            let p = e.path();
            if p.is_dir() {
                walk(&p, out);
            } else if p.extension().map_or(false, |x| x == "rs") {
                let Ok(src) = std::fs::read_to_string(&p) else { continue };
                for key in ["var(", "var_os("] {
                    let mut rest = src.as_str();
                    while let Some(i) = rest.find(key) {
                        rest = &rest[i + key.len()..];
                        let t = rest.trim_start();
                        if let Some(t) = t.strip_prefix('"') {
                            if let Some(j) = t.find('"') {
                                let name = &t[..j];
                                if !name.is_empty() && name.chars().all(|c| c.is_ascii_alphanumeric() || c == '_') && !name.starts_with("CARGO") {
                                    out.push(name.to_string());
                                }
                            }
                        }
                    }
                }
            }
        }
    }
    let mut v = vec![];
    walk(Path::new(&format!("{}/epserde/src", REPO)), &mut v);
    v.sort();
    v.dedup();
    v
}

/// Universes skipped by `prepare` (label, reason); the caller reports them as notes.
pub static SKIPPED: std::sync::Mutex<Vec<(String, String)>> = std::sync::Mutex::new(Vec::new());

/// Compiler errors (per binary = universe label) of the last `prepare`.
pub static LAST_ERRORS: std::sync::Mutex<std::collections::BTreeMap<String, Vec<String>>> = std::sync::Mutex::new(std::collections::BTreeMap::new());

/// Generate + build the given universes; returns their labels with descriptions.
pub fn prepare(opts: &Opts, labels: &[String]) -> Result<Vec<(String, Universe)>, String> {
    let us: Vec<(String, Universe)> = labels.iter().map(|l| (l.clone(), universe_by_label(l, opts))).collect();
    let mut us = us;
    let dir = write_crate(&us, variant());
    let mut b = cargo_build(&dir, true);
    *LAST_ERRORS.lock().unwrap() = b.errors.clone();
    // Seeded universes (not the fixed or hand-written ones) whose compilation exhausts the compiler's memory
    // budget are skipped with a note: the other universes still decide the property. (A change in the library's
    // inlining structure can make rustc need tens of gigabytes for moderately nested generated types.)
    if !b.ok && b.errors.is_empty() && (b.raw_tail.contains("out of memory") || b.raw_tail.contains("Allocation failed") || b.raw_tail.contains("SIGKILL")) {
        let failed: Vec<String> = b.raw_tail.lines().filter_map(|l| l.split("(bin \"").nth(1).and_then(|x| x.split('"').next()).map(|x| x.to_string())).collect();
        let seeded = |l: &str| l.starts_with('s') && l[1..].chars().next().map_or(false, |c| c.is_ascii_digit()) || l.starts_with("ms");
        if !failed.is_empty() && failed.iter().all(|f| seeded(f)) && failed.len() < us.len() {
            for f in &failed {
                SKIPPED.lock().unwrap().push((f.clone(), "the compiler ran out of its memory budget (24 GiB) on this generated program".to_string()));
            }
            us.retain(|(l, _)| !failed.contains(l));
            b.ok = us.iter().all(|(l, _)| Path::new(&bin_path(l)).exists());
        }
    }
    if !b.ok {
        let mut msg = String::from("build of generated subject programs failed\n");
        for (t, es) in &b.errors {
            for e in es.iter().take(3) {
                msg.push_str(&format!("[{}] {}\n", t, e));
            }
        }
        if b.errors.is_empty() {
            msg.push_str(&b.raw_tail);
        }
        return Err(msg);
    }
    Ok(us)
}

/// Outcome of one run of a subject program.
pub enum RunOutcome {
    Report(Value),
    /// killed by a signal (abort, segfault, ...); stderr tail
    Signal(i32, String),
    Failed(String),
}

fn run_once(label: &str, prop: &str, opts: &Opts, extra: &[String], capture: bool) -> RunOutcome {
    let out = format!("{}/out/{}-{}-{}{}.json", WORK, prop, label, opts.tier, variant());
    std::fs::remove_file(&out).ok();
    let mut c = Command::new(bin_path(label));
    if variant() == "-asan" {
        c.env("ASAN_OPTIONS", "abort_on_error=1:detect_leaks=0:allocator_may_return_null=0:print_summary=1");
    }
    for (k, v) in EXTRA_ENV.lock().unwrap().iter() {
        c.env(k, v);
    }
    c.arg("--universe").arg(universe_json_path(label)).arg("--prop").arg(prop).arg("--tier").arg(&opts.tier).arg("--seed").arg(opts.seed.to_string()).arg("--out").arg(&out);
    c.arg("--known").arg(format!("{}/known_findings.json", crate::VERIF));
    if !extra.iter().any(|e| e == "--threads") {
        c.arg("--threads").arg("16");
    }
    for e in extra {
        c.arg(e);
    }
    // the crate warns on stderr for every undeclared could-be-zero-copy type
    if capture {
        c.stderr(std::process::Stdio::piped());
    } else {
        c.stderr(std::process::Stdio::null());
    }
    let o = match c.output() {
        Ok(o) => o,
        Err(e) => return RunOutcome::Failed(format!("cannot run {}: {}", bin_path(label), e)),
    };
    if !o.status.success() {
        use std::os::unix::process::ExitStatusExt;
        if let Some(sig) = o.status.signal() {
            let err = String::from_utf8_lossy(&o.stderr);
            let lines: Vec<&str> = err.lines().filter(|l| !l.starts_with("Type ") && !l.starts_with("SUBJECT")).collect();
            let key: Vec<&str> = lines.iter().copied().filter(|l| l.contains("memory allocation of") || l.contains("AddressSanitizer") || l.contains("panicked") || l.contains("SUMMARY") || l.contains("fatal runtime error") || l.contains("epserde/src")).take(6).collect();
            let shown = if key.is_empty() { lines.iter().rev().take(4).rev().cloned().collect::<Vec<_>>() } else { key };
            return RunOutcome::Signal(sig, shown.iter().map(|l| l.trim()).collect::<Vec<_>>().join(" | "));
        }
        return RunOutcome::Failed(format!("subject program {} exited with {:?} for {}", label, o.status.code(), prop));
    }
    match crate::read_json(&out) {
        Some(v) => RunOutcome::Report(v),
        None => RunOutcome::Failed(format!("no report at {}", out)),
    }
}

/// Run one subject bin for a property; returns its JSON report. A run killed by a signal (abort on an
/// absurd allocation, segfault, ...) is bisected to the subject that crashes; that subject is reported as a
/// failure and the run is repeated without it.
pub fn run_bin(label: &str, prop: &str, opts: &Opts, extra: &[String]) -> Result<Value, String> {
    let n_subjects = universe_by_label(label, opts).subjects.len();
    let mut skip: Vec<usize> = vec![];
    let mut crash_failures: Vec<Value> = vec![];
    loop {
        let mut ex = extra.to_vec();
        if !skip.is_empty() {
            ex.push("--skip".into());
            ex.push(skip.iter().map(|x| x.to_string()).collect::<Vec<_>>().join(","));
        }
        match run_once(label, prop, opts, &ex, false) {
            RunOutcome::Report(mut v) => {
                if let Some(a) = v["failures"].as_array_mut() {
                    a.extend(crash_failures);
                }
                return Ok(v);
            }
            RunOutcome::Failed(e) => return Err(e),
            RunOutcome::Signal(sig, _) => {
                if skip.len() >= 4 && !crash_failures.is_empty() {
                    // several types crash the process: report the ones attributed so far
                    return Ok(serde_json::json!({
                        "evaluations": crash_failures.len(), "nontrivial": [], "classes": {}, "samples": [], "failures": crash_failures,
                        "known": {}, "excluded": {}, "exhaustive_parts": {}, "subjects": n_subjects, "wall_s": 0.0,
                        "notes": ["the subject program kept crashing after 4 crashing types were set aside; the remaining subjects were not explored"],
                    }));
                }
                if sig == 9 || n_subjects == 0 {
                    return Err(format!("subject program {} was killed by signal {} for {} (not attributed)", label, sig, prop));
                }
                // bisect the subject range
                let (mut lo, mut hi) = (0usize, n_subjects);
                let mut last_err = String::new();
                while hi - lo > 1 {
                    let mid = (lo + hi) / 2;
                    let mut e2 = ex.clone();
                    e2.extend(["--from".to_string(), lo.to_string(), "--to".to_string(), mid.to_string()]);
                    match run_once(label, prop, opts, &e2, true) {
                        RunOutcome::Signal(_, err) => {
                            hi = mid;
                            last_err = err;
                        }
                        _ => lo = mid,
                    }
                }
                // confirm in isolation
                let mut e3 = extra.to_vec();
                e3.extend(["--from".to_string(), lo.to_string(), "--to".to_string(), (lo + 1).to_string()]);
                match run_once(label, prop, opts, &e3, true) {
                    RunOutcome::Signal(s2, err) => {
                        let u = universe_by_label(label, opts);
                        let name = vmodel::render::ty(&u, &u.subjects[lo]);
                        crash_failures.push(serde_json::json!({
                            "property": prop, "subject": name, "subject_index": lo, "val": Value::Null, "val_shown": Value::Null,
                            "env": {"signal": s2}, "signature": format!("process-crash:signal-{}", s2),
                            "message": format!("the process running the check was killed by signal {} while checking this type (stderr: {})", s2, if err.is_empty() { last_err.clone() } else { err }),
                        }));
                        skip.push(lo);
                    }
                    _ => return Err(format!("subject program {} was killed by signal {} for {} but the crash did not reproduce in isolation", label, sig, prop)),
                }
            }
        }
    }
}
