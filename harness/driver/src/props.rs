//! Per-property orchestration.

use crate::build;
use crate::evidence::{self, Agg};
use crate::{Opts, VERIF, WORK};
use serde_json::{json, Value};
use std::collections::BTreeMap;

pub struct PropInfo {
    pub id: &'static str,
    pub level: &'static str,
    pub rule: &'static str,
    pub assumptions: &'static [&'static str],
}

pub const COMMON_ASSUMPTIONS: &[&str] = &[
    "x86_64 little-endian linux target; rustc layouts of repr(C) aggregates are taken from the compiler (offset_of!/size_of/align_of)",
    "generated programs cover the grammar of DESIGN.md section 2.3, not all Rust programs",
    "proptest PRNG seeded from VERIF_SEED; a run is a pure function of the tree and the seed",
];

pub fn info(id: &str) -> Option<PropInfo> {
    let (level, rule): (&str, &str) = match id {
        "C01" => ("exploration", "subjects = closed types of the fixed, extra (targeted shapes: large units, long type names, zero-byte items), zst (zero-sized blocks) and seeded universes; values from the edge-biased recursive strategy, plus deterministic sweeps (preceding length 0..=130 for the Pre wrappers, payloads of 1 MiB and more); oracle: model value equality after serialize -> deserialize_full. Non-trivial = value has a non-empty sequence, a non-first variant or a non-default primitive; distinct by (type, value)."),
        "C02" => ("exploration", "same domain; stream placed page-aligned and at an odd multiple of the largest unit; oracle: eps value == original == full copy; DeserType TypeId equals the documented substitution. Non-trivial = at least one non-empty borrow or non-empty sequence."),
        "C03" => ("exploration", "same domain; borrows (pre-order) must coincide with the serializer's block events at borrowed positions (offset, length, alignment, in-buffer), also at 7 displaced base addresses whenever deserialization succeeds there; allocation calls/bytes invariant under scaling borrowed lengths by 2, 5, 64 (counting allocator). Non-trivial = at least one non-empty borrow."),
        "C04" => ("exploration", "universes of generated definitions extended with near-miss mutants in separate modules (field renamed, fields swapped, same-size field type, copy kind toggled, const parameter renamed, variant renamed/swapped, repr(align) added/changed, array length, tuple arity, sequence kind, type renamed, identical copy as positive control) and near-miss built-in compositions; (1) over all unordered pairs of subjects: same (type hash, alignment hash) iff same structural description (type-level attributes; layout = repr attributes, size, offsets from the compiler); (2) bytes of T read as U (full and eps) for all near-miss pairs both ways and a random sample of pairs: WrongTypeHash / WrongAlignHash with both hash values, or accepted with the same value when the descriptions are equal; (3) slice/iterator/vector share both hashes. Non-trivial = cross-read of a pair with different descriptions, distinct by (T, U, value)."),
        "C05" => ("exploration", "type definitions generated from the derive grammar (named/tuple/unit structs, unit/tuple/struct variants, field / inner / phantom / const / defaulted parameters, inline bounds, where-clauses, zero_copy / deep_copy / no attribute, repr attributes, nesting of earlier definitions) x instantiations x values; oracles: the generated program compiles against the working tree (a failure is bisected to the culprit definition), every instantiation round-trips in both modes, TypeId of DeserType equals the documented substitution and SerType is the type itself; identified probe classes for shapes the statement names that the derive rejects. Non-trivial = definition with >= 1 parameter or >= 2 variants, distinct by (type, value)."),
        "C06" => ("exploration", "bytes compared with an independent reference encoder + reference hasher (compiler padding masked); golden corpus written by the pinned build re-read. Non-trivial = stream contains a tag, length prefix or block."),
        "C07" => ("exploration", "event trace of the real padding code (Align/Block): start % unit == 0, minimal all-zero gap, unit power of two >= native alignment and >= field units; returned count == bytes written == bytes consumed by both readers; exhaustive pad formula grid. Non-trivial = case with a block preceded by a gap > 0."),
        "C08" => ("exploration", "files of generated values x loaders x 8 flag sets x move/thread scripts; oracle: loaded == eps(file bytes); borrows inside region; region alignment and zero tail. Non-trivial = structure with a non-empty borrow. Also: loading through a symbolic link, store after a failed store to /dev/full, sentinel sibling files and a concurrent store to the same stem, load_full from a named pipe, MemCase::encase, sparse files of about 2^31 bytes, the no-mmap build."),
        "C09" => ("fault_enumeration", "run-time: per subject a generated value with borrowed payloads inflated to >= 300 KB; failure causes {bad magic, major version, wrong type hash, wrong alignment hash, truncated header, truncated value, foreign tag, missing file} x loaders {load_full, load_mem, load_mmap, mmap} x 5 repetitions after a warm-up: live heap bytes (tracking allocator), file mappings (/proc/self/maps) and address-space size (/proc/self/statm) must return to the previous level; successful loads moved/boxed/dropped likewise. Compile-time: a family of probe programs per access path (eps result past the buffer's scope / returned / required 'static / sent to a thread; MemCase contents copied out through Deref, AsRef, field or element copy for each loader) that must not compile, each with a positive twin. Non-trivial = (cause, loader) pair or negative probe."),
        "C10" => ("fault_enumeration", "per generated stream: every single-bit flip of the 29 fixed header bytes, reversed cookie, minor version classes, both modes; oracle: field -> exact error variant and payload. Non-trivial = every mutation (distinct by subject, value, mutation). The same flips on a header of minor version 0; the reversed cookie and four generated mutations stored in a file through the four loaders."),
        "C11" => ("fault_enumeration", "per generated stream: every cut point k in [0,len) (sampled for long streams) x {full, load_full, eps on exact prefix, mmap}; oracle: ReadError / error-or-bounds-panic, never a value. Non-trivial = cut inside the value part. Stored files with intact sibling copies under backup-like names; files of 1.1 / 2.4 MiB with zero tails cut at each of the last 72 bytes under load_full and mmap with six flag sets; repeated in a build without debug assertions."),
        "C12" => ("exploration", "per generated stream: all base residues 0..127; oracle: success iff every block the deserializer meets lands on a multiple of its unit (prediction from the serializer's align events), else AlignmentError; borrows aligned. Non-trivial = residue predicted to fail, or a sibling pair with different block sets. Units above 128: placements at multiples of 64 up to twice the unit; repeated with every environment variable the library reads set to 1, and in a build without debug assertions."),
        "C13" => ("fault_enumeration", "per generated value: persistent fail@k, one-shot fail@k and Ok(0)@k for every k in [0,len] (sampled above the budget), flush failure, split and interrupted schedules, plain and BufWriter sinks, /dev/full; the same through serialize_with_schema and serialize_on_field_write; sources behind &[T], SerIter and generic wrappers of them; oracle: Err(WriteError), accepted bytes are a prefix, split/retry sinks get exact bytes, no allocation that existed before the call is freed (protected epoch of the tracking allocator), source intact. Non-trivial = 0 < k < len."),
        "C14" => ("fault_enumeration", "per generated stream: chunked / 1-byte / interrupted readers and fail@k for every k in [0,len); oracle: same value / Err(ReadError), no panic, no foreign free. Non-trivial = failure inside the value part or fragmented read of a stream with a sequence. One-shot WouldBlock / TimedOut faults followed by more data; payloads above 1 MiB; readers that use the library inside read() (watchdog)."),
        "C15" => ("exploration", "every tag site of every generated stream x every foreign tag value (all bytes / boundary usize values), both modes; every variant round-trips. Non-trivial = foreign tag injection (distinct by subject, value, site, tag)."),
        "C18" => ("exploration", "schema recording vs plain bytes; row invariants (pre-order, containment, leaf tiling, zero padding, aligned blocks); the same with the SchemaWriter layered on a writer that has already written a 3/8/13-byte prefix; to_csv/debug. Non-trivial = schema with a composite having >= 2 children and a padding row."),
        "C16" => ("exploration", "every subject of the form Vec<E> (zero-copy and deep E) x generated item sequences incl. empty: streams of &[E], SerIter (zero-copy E), and both nested in one- and two-parameter generic structs compared byte-for-byte (same source memory) with the vector's stream, header included; slice stream deserialized as the vector in both modes; lying iterators for all (announced, actual) in 0..8 x {standalone, nested}; writer faults with borrowed sources (no foreign free). Non-trivial = non-empty sequence, or announced != actual."),
        "C17" => ("exploration", "probe programs: a valid zero-copy definition generated from the grammar (twin) and the same definition with one mutation (field replaced by vector / string / boxed slice / deep struct / Copy-but-deep struct / option / reference / reference holder / array of deep values / non-Copy range, repr(C) dropped or replaced, both attributes); oracle: cargo check rejects the mutant, or the built mutant panics/fails with no byte written beyond the header; the twin compiles and round-trips. Non-trivial = mutant probe, distinct by source text."),
        "C19" => ("exploration", "operation histories vec(op, 0..60) over {write, write_all, flush, read, seek start/current/end, set_position, position, len, as_bytes} x 8 alignment types x optional initial capacity, plus long histories (500-1500 ops); differential against std::io::Cursor<Vec<u8>> after every step (result/ErrorKind, position, length, contents, storage alignment). Non-trivial = history containing a non-empty write that begins beyond the current length; distinct by (alignment, history, capacity)."),
        _ => return None,
    };
    Some(PropInfo { id: Box::leak(id.to_string().into_boxed_str()), level, rule, assumptions: COMMON_ASSUMPTIONS })
}

/// known findings: signature prefix -> description, per property
pub fn known_findings() -> Vec<Value> {
    crate::read_json(&format!("{}/known_findings.json", VERIF)).and_then(|v| v["findings"].as_array().cloned()).unwrap_or_default()
}

fn matches_known(f: &Value, known: &[Value], prop: &str) -> Option<String> {
    let sig = f["signature"].as_str().unwrap_or("");
    let subject = f["subject"].as_str().unwrap_or("");
    for k in known {
        if k["property"].as_str() != Some(prop) || k["status"].as_str() == Some("fixed") {
            continue;
        }
        let ksig = k["signature"].as_str().unwrap_or("\u{0}");
        let ksub = k["subject_contains"].as_str().unwrap_or("");
        if sig.starts_with(ksig) && subject.contains(ksub) {
            return Some(k["what"].as_str().unwrap_or(ksig).to_string());
        }
    }
    None
}

pub fn universes_for(opts: &Opts) -> Vec<String> {
    if opts.prop == "C19" {
        return vec!["fixed".to_string()];
    }
    if opts.prop == "C04" {
        let mut v = vec!["mfixed".to_string(), format!("ms{}", opts.seed)];
        if let Ok(l) = std::env::var("VERIF_ONLY_UNIVERSE") {
            return vec![l];
        }
        if opts.tier == "thorough" {
            for k in 1..6 {
                v.push(format!("ms{}k{}", opts.seed, k));
            }
        }
        return v;
    }
    let mut v = vec!["fixed".to_string(), "extra".to_string(), "zst".to_string(), format!("s{}", opts.seed)];
    if let Ok(l) = std::env::var("VERIF_ONLY_UNIVERSE") {
        return vec![l];
    }
    if ["C01", "C02", "C03", "C06", "C07", "C10", "C12", "C13", "C14", "C18"].contains(&opts.prop.as_str()) {
        // alignment units above the 64 bytes that the file loaders support: in-memory properties only
        v.push("wide".to_string());
    }
    if opts.prop == "C07" || opts.prop == "C18" {
        // ranges over index types of odd size: see the known finding O14
        v.push("odd".to_string());
    }
    if opts.tier == "thorough" {
        for k in 1..8 {
            v.push(format!("s{}k{}", opts.seed, k));
        }
    }
    v
}

pub fn run(opts: &Opts) -> i32 {
    let start = std::time::Instant::now();
    let Some(pi) = info(&opts.prop) else {
        eprintln!("property {} has no check registered", opts.prop);
        return 2;
    };
    if opts.prop == "C05" {
        return crate::c05::run(opts, &pi);
    }
    if opts.prop == "C09" {
        return crate::c09::run(opts, &pi);
    }
    if opts.prop == "C17" {
        return crate::c17::run(opts, &pi);
    }
    if let Some(r) = &opts.replay {
        let rj = crate::read_json(&r.to_string_lossy());
        let artifact = match &rj {
            Some(j) => j["env"]["fuzz_artifact"].as_str().map(|s| s.to_string()),
            None => Some(r.to_string_lossy().to_string()),
        };
        if let Some(a) = artifact {
            let t = if opts.prop == "C19" { "fz_cursor" } else { "fz_subjects" };
            return match crate::fuzz::replay(t, &opts.prop, &a) {
                Ok(true) => {
                    println!("VIOLATION property={} replay={}", opts.prop, a);
                    1
                }
                Ok(false) => {
                    println!("OK property={} replay of {} no longer fails", opts.prop, a);
                    0
                }
                Err(e) => {
                    eprintln!("INFRASTRUCTURE: {}", e);
                    2
                }
            };
        }
    }
    let labels = if let Some(r) = &opts.replay {
        let rj = crate::read_json(&r.to_string_lossy()).unwrap_or(Value::Null);
        if let Some(var) = rj["env_var"].as_str() {
            *build::EXTRA_ENV.lock().unwrap() = vec![(var.to_string(), "1".to_string())];
        }
        // a failure found in another build variant is replayed in that variant
        match rj["variant"].as_str() {
            Some("-rel") => build::set_variant("-rel"),
            Some("-nommap") => build::set_variant("-nommap"),
            Some("-asan") => build::set_variant("-asan"),
            _ => {}
        }
        vec![rj["universe"].as_str().filter(|u| *u != "-").unwrap_or("fixed").to_string()]
    } else {
        universes_for(opts)
    };
    let static_replay = opts.replay.as_ref().map_or(false, |r| crate::read_json(&r.to_string_lossy()).map_or(false, |j| j["env"]["static_deser_type"] == json!(true)));
    let us = match build::prepare(opts, &labels) {
        Ok(u) => {
            if static_replay {
                println!("OK property={} replay: the generated programs type-check again", opts.prop);
                return 0;
            }
            u
        }
        Err(e) => {
            // C03 states what the ε-copy type *is*: each generated program converts the deserialized value with a
            // function typed on the documented type, so a mismatch is a type error located in `eps_to_val`
            if opts.prop == "C03" {
                let mut agg = Agg::default();
                for (label, errs) in build::LAST_ERRORS.lock().unwrap().iter() {
                    for er in errs {
                        if er.contains("E0308") && er.contains("fn eps_to_val<'a>") {
                            let what = er.lines().find(|l| l.contains("expected `") && l.contains("found `")).map(|l| l.trim_start_matches(|c: char| c == ' ' || c == '|' || c == '-' || c == '^').trim().to_string()).unwrap_or_default();
                            let subject = what.split("expected `&").nth(1).and_then(|x| x.split('`').next()).unwrap_or("?").to_string();
                            agg.failures.push(json!({"subject": subject, "signature": "deser-type-static-mismatch", "universe": label, "val": Value::Null, "val_shown": "-", "env": {"static_deser_type": true},
                                "message": format!("the ε-copy deserialization type is not the documented one ({}): the generated program that names the documented type does not type-check", what)}));
                        }
                    }
                }
                if !agg.failures.is_empty() {
                    agg.failures.truncate(8);
                    return finish(opts, &pi, agg, start, None);
                }
            }
            eprintln!("INFRASTRUCTURE: {}", e);
            return 2;
        }
    };
    let mut agg = Agg::default();
    let mut infra_err = None;
    for (label, u) in &us {
        let mut extra = vec![];
        if let Some(r) = &opts.replay {
            extra.push("--replay".to_string());
            extra.push(r.to_string_lossy().to_string());
        }
        match build::run_bin(label, &opts.prop, opts, &extra) {
            Ok(mut r) => {
                if let Some(fs) = r["failures"].as_array_mut() {
                    for f in fs.iter_mut() {
                        f["universe"] = json!(label);
                    }
                }
                agg.add_report(&r);
                agg.universes.push(json!({"label": label, "definitions": u.adts.len(), "subjects": u.subjects.len(), "wall_s": r["wall_s"]}));
            }
            Err(e) => infra_err = Some(e),
        }
    }
    // ---- the no-mmap feature configuration (C08's quantifier): load_full / load_mem only
    if opts.prop == "C08" && opts.replay.is_none() {
        build::set_variant("-nommap");
        match build::prepare(opts, &["fixed".to_string()]) {
            Ok(us) => {
                for (label, u) in &us {
                    match build::run_bin(label, &opts.prop, opts, &[]) {
                        Ok(mut r) => {
                            if let Some(fs) = r["failures"].as_array_mut() {
                                for f in fs.iter_mut() {
                                    f["universe"] = json!(label);
                                    f["variant"] = json!("-nommap");
                                    f["message"] = json!(format!("[epserde built without the mmap feature] {}", f["message"].as_str().unwrap_or("")));
                                }
                            }
                            agg.add_report(&r);
                            agg.universes.push(json!({"label": format!("{} (no-mmap build)", label), "definitions": u.adts.len(), "subjects": u.subjects.len(), "wall_s": r["wall_s"]}));
                        }
                        Err(e) => infra_err = Some(e),
                    }
                }
            }
            Err(e) => infra_err = Some(format!("no-mmap configuration: {}", e)),
        }
        build::set_variant("");
    }
    // ---- the same oracles with every environment variable that the library reads set to "1" (none on the pinned
    // tree: the stage only exists when the source mentions one)
    if opts.replay.is_none() {
        for var in build::discovered_env_vars() {
            *build::EXTRA_ENV.lock().unwrap() = vec![(var.clone(), "1".to_string())];
            for (label, u) in &us {
                if label != "fixed" && label != "extra" && label != "wide" {
                    continue;
                }
                match build::run_bin(label, &opts.prop, opts, &[]) {
                    Ok(mut r) => {
                        if let Some(fs) = r["failures"].as_array_mut() {
                            for f in fs.iter_mut() {
                                f["universe"] = json!(label);
                                f["env_var"] = json!(var);
                                f["message"] = json!(format!("[with the environment variable {}=1] {}", var, f["message"].as_str().unwrap_or("")));
                            }
                        }
                        agg.add_report(&r);
                        agg.universes.push(json!({"label": format!("{} (with {}=1)", label, var), "definitions": u.adts.len(), "subjects": u.subjects.len(), "wall_s": r["wall_s"]}));
                    }
                    Err(e) => infra_err = Some(e),
                }
            }
            build::EXTRA_ENV.lock().unwrap().clear();
        }
    }
    // ---- types naming arrays of more than 2^32 items (their own universe and their own build, see fixedgen.rs)
    let mut apart: Vec<&str> = vec![];
    if ["C01", "C04", "C06"].contains(&opts.prop.as_str()) {
        apart.push("huge");
    }
    // ... and very deep nesting / type names of kilobytes, for the same reason
    if ["C01", "C02", "C03", "C06", "C07", "C10", "C11", "C12", "C13", "C14", "C15", "C18"].contains(&opts.prop.as_str()) {
        apart.push("deep");
    }
    for apart_label in apart {
        if opts.replay.is_some() || std::env::var_os("VERIF_ONLY_UNIVERSE").is_some() {
            break;
        }
        match build::prepare(opts, &[apart_label.to_string()]) {
            Ok(hs) => {
                for (label, u) in &hs {
                    match build::run_bin(label, &opts.prop, opts, &[]) {
                        Ok(mut r) => {
                            if let Some(fs) = r["failures"].as_array_mut() {
                                for f in fs.iter_mut() {
                                    f["universe"] = json!(label);
                                }
                            }
                            agg.add_report(&r);
                            agg.universes.push(json!({"label": label, "definitions": u.adts.len(), "subjects": u.subjects.len(), "wall_s": r["wall_s"]}));
                        }
                        Err(e) => infra_err = Some(e),
                    }
                }
            }
            // inconclusive, not an alarm: the other universes have been decided
            Err(e) => agg.universes.push(json!({"label": apart_label, "note": format!("could not be built, skipped: {}", e.lines().take(3).collect::<Vec<_>>().join(" / "))})),
        }
    }
    // ---- the same oracles with everything built as a release build would be (no debug assertions, no overflow
    // checks): behaviour that only debug assertions keep in check shows up here
    const REL_PROPS: [&str; 4] = ["C02", "C11", "C12", "C15"];
    if opts.replay.is_none() && REL_PROPS.contains(&opts.prop.as_str()) {
        build::set_variant("-rel");
        let labels = if opts.tier == "thorough" { vec!["fixed".to_string(), "extra".to_string(), format!("s{}", opts.seed)] } else { vec!["fixed".to_string()] };
        match build::prepare(opts, &labels) {
            Ok(us) => {
                for (label, u) in &us {
                    match build::run_bin(label, &opts.prop, opts, &[]) {
                        Ok(mut r) => {
                            if let Some(fs) = r["failures"].as_array_mut() {
                                for f in fs.iter_mut() {
                                    f["universe"] = json!(label);
                                    f["variant"] = json!("-rel");
                                    f["message"] = json!(format!("[built without debug assertions and overflow checks] {}", f["message"].as_str().unwrap_or("")));
                                }
                            }
                            agg.add_report(&r);
                            agg.universes.push(json!({"label": format!("{} (release-like build)", label), "definitions": u.adts.len(), "subjects": u.subjects.len(), "wall_s": r["wall_s"]}));
                        }
                        Err(e) => infra_err = Some(e),
                    }
                }
            }
            Err(e) => infra_err = Some(format!("release-like build: {}", e)),
        }
        build::set_variant("");
    }
    // ---- thorough: the same oracles under AddressSanitizer (no tracking allocator)
    const ASAN_PROPS: [&str; 10] = ["C01", "C02", "C03", "C08", "C11", "C12", "C13", "C14", "C15", "C16"];
    if opts.tier == "thorough" && opts.replay.is_none() && ASAN_PROPS.contains(&opts.prop.as_str()) {
        build::set_variant("-asan");
        let labels = vec!["fixed".to_string(), "extra".to_string(), format!("s{}", opts.seed)];
        match build::prepare(opts, &labels) {
            Ok(us) => {
                for (label, u) in &us {
                    match build::run_bin(label, &opts.prop, opts, &[]) {
                        Ok(mut r) => {
                            if let Some(fs) = r["failures"].as_array_mut() {
                                for f in fs.iter_mut() {
                                    f["universe"] = json!(label);
                                    f["variant"] = json!("-asan");
                                    f["message"] = json!(format!("[AddressSanitizer build] {}", f["message"].as_str().unwrap_or("")));
                                }
                            }
                            agg.add_report(&r);
                            agg.universes.push(json!({"label": format!("{} (AddressSanitizer)", label), "definitions": u.adts.len(), "subjects": u.subjects.len(), "wall_s": r["wall_s"]}));
                        }
                        Err(e) => infra_err = Some(e),
                    }
                }
            }
            Err(e) => infra_err = Some(format!("AddressSanitizer build: {}", e)),
        }
        build::set_variant("");
    }
    // ---- thorough: coverage-guided campaign (libFuzzer + AddressSanitizer) with the property's oracle in-target
    if opts.tier == "thorough" && opts.replay.is_none() {
        let target = if opts.prop == "C19" { Some("fz_cursor") } else if crate::fuzz::FUZZ_PROPS.contains(&opts.prop.as_str()) { Some("fz_subjects") } else { None };
        if let Some(t) = target {
            let runs: u64 = std::env::var("VERIF_FUZZ_RUNS").ok().and_then(|v| v.parse().ok()).unwrap_or(if t == "fz_cursor" { 400_000 } else { 100_000 });
            match crate::fuzz::campaign(t, &opts.prop, opts, runs) {
                Ok(r) => {
                    agg.add_report(&r);
                    agg.universes.push(json!({"label": format!("libFuzzer campaign {}", t), "executions": r["evaluations"], "wall_s": r["wall_s"]}));
                }
                Err(e) => infra_err = Some(format!("fuzz campaign: {}", e)),
            }
        }
    }
    for (l, why) in build::SKIPPED.lock().unwrap().drain(..) {
        agg.universes.push(json!({"label": l, "note": format!("skipped: {}", why)}));
    }
    let code = finish(opts, &pi, agg, start, infra_err);
    code
}

/// Classify failures (harness problems / known findings / violations), write replays + evidence.
pub fn finish(opts: &Opts, pi: &PropInfo, mut agg: Agg, start: std::time::Instant, infra_err: Option<String>) -> i32 {
    let known = known_findings();
    let mut violations = 0usize;
    let mut harness_problems = 0usize;
    let mut known_lines: BTreeMap<String, u64> = BTreeMap::new();
    let failures = std::mem::take(&mut agg.failures);
    for (n, f) in failures.iter().enumerate() {
        let sig = f["signature"].as_str().unwrap_or("");
        if sig.starts_with("harness") {
            harness_problems += 1;
            eprintln!("HARNESS-PROBLEM property={} subject={} {}", opts.prop, f["subject"], f["message"]);
            continue;
        }
        if let Some(what) = matches_known(f, &known, &opts.prop) {
            *known_lines.entry(what).or_default() += 1;
            continue;
        }
        violations += 1;
        let path = format!("{}/replays/{}-{}-{}.json", WORK, opts.prop, opts.seed, n);
        let mut rj = f.clone();
        rj["property"] = json!(opts.prop);
        rj["seed"] = json!(opts.seed);
        std::fs::write(&path, serde_json::to_string_pretty(&rj).unwrap()).ok();
        println!("VIOLATION property={} replay={}", opts.prop, path);
        println!("  subject: {}", f["subject"].as_str().unwrap_or("?"));
        println!("  value:   {}", f["val_shown"].as_str().unwrap_or("-"));
        println!("  reason:  {}", f["message"].as_str().unwrap_or("?"));
    }
    for (k, n) in &agg.known {
        *known_lines.entry(k.clone()).or_default() += n;
    }
    for (what, n) in &known_lines {
        println!("KNOWN-FINDING: property={} {} (met {} times)", opts.prop, what, n);
    }
    agg.known = known_lines;
    let wall = start.elapsed().as_secs_f64();
    if opts.replay.is_none() {
        let exhaustive = false;
        evidence::write(&opts.prop, &opts.tier, opts.seed, pi.level, pi.rule, pi.assumptions, &agg, wall, violations, exhaustive);
    }
    if violations > 0 {
        return 1;
    }
    if harness_problems > 0 || infra_err.is_some() {
        if let Some(e) = infra_err {
            eprintln!("INFRASTRUCTURE: {}", e);
        }
        return 2;
    }
    println!("OK property={} tier={} seed={} evaluations={} distinct_nontrivial={} wall={:.1}s", opts.prop, opts.tier, opts.seed, agg.evaluations, agg.nontrivial.len() as u64 + agg.nontrivial_extra, wall);
    0
}
