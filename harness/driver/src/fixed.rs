//! The fixed universe: committed description (JSON) that the golden corpus refers to.

use crate::HARNESS;

pub fn write_fixed() {
    let u = vmodel::fixedgen::fixed_universe();
    let p = format!("{}/fixed_universe/universe.json", HARNESS);
    if std::path::Path::new(&p).exists() && std::env::var_os("VERIF_REGENERATE_FIXED").is_none() {
        // the committed description is frozen: the golden corpus refers to it, and the generator behind its
        // generated part has since evolved
        eprintln!("{} exists and is frozen (the golden corpus refers to it); set VERIF_REGENERATE_FIXED=1 to overwrite, then run gen-corpus", p);
        return;
    }
    std::fs::create_dir_all(format!("{}/fixed_universe", HARNESS)).ok();
    std::fs::write(&p, serde_json::to_string_pretty(&u).unwrap()).unwrap();
    println!("wrote {} ({} definitions, {} subjects)", p, u.adts.len(), u.subjects.len());
}
