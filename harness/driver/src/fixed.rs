//! The fixed universe: committed description (JSON) that the golden corpus refers to.

use crate::HARNESS;

pub fn write_fixed() {
    let u = vmodel::fixedgen::fixed_universe();
    let p = format!("{}/fixed_universe/universe.json", HARNESS);
    std::fs::create_dir_all(format!("{}/fixed_universe", HARNESS)).ok();
    std::fs::write(&p, serde_json::to_string_pretty(&u).unwrap()).unwrap();
    println!("wrote {} ({} definitions, {} subjects)", p, u.adts.len(), u.subjects.len());
}
