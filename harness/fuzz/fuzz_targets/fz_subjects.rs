//! libFuzzer target over the *fuzz universe* (a slice of the fixed universe, rendered by
//! `vcheck fuzz-prepare` into /verif/work/fuzz/uni.rs): bytes -> subject + value + environment entropy
//! -> bundle of oracles (C01, C02, C03, C06, C07, C11, C12, C15). Built with AddressSanitizer, so any
//! out-of-bounds access of the code under test is a crash on its own; the semantic oracles are in-target.
#![no_main]

#[path = "/verif/work/fuzz/uni.rs"]
mod uni;

use libfuzzer_sys::fuzz_target;
use std::collections::BTreeMap;
use std::sync::OnceLock;
use vmodel::decode::{val_from_bytes, Bytes};
use vmodel::format::{Layouts, Model};
use vmodel::ty::Universe;
use vmodel::val::Val;
use voracles::report::Report;
use voracles::runner::{Ctx, Tier};
use voracles::DynSubject;

struct State {
    u: Universe,
    subjects: Vec<Box<dyn DynSubject>>,
    lay: (Layouts, BTreeMap<String, usize>),
    known: BTreeMap<String, serde_json::Value>,
    strict: bool,
}

static STATE: OnceLock<State> = OnceLock::new();

fn state() -> &'static State {
    STATE.get_or_init(|| {
        voracles::runner::install_panic_hook();
        voracles::checks::LIGHT.store(true, std::sync::atomic::Ordering::Relaxed);
        let u: Universe = serde_json::from_str(&std::fs::read_to_string("/verif/work/fuzz/universe.json").expect("fuzz universe")).expect("json");
        State { u, subjects: uni::subjects(), lay: uni::layouts(), known: BTreeMap::new(), strict: std::env::var_os("VERIF_FUZZ_STRICT").is_some() }
    })
}

const PROPS: [&str; 8] = ["C01", "C02", "C03", "C06", "C07", "C11", "C12", "C15"];

/// `VERIF_FUZZ_PROP` restricts the campaign to one property's oracle.
fn only_prop() -> Option<&'static str> {
    static P: OnceLock<Option<&'static str>> = OnceLock::new();
    *P.get_or_init(|| std::env::var("VERIF_FUZZ_PROP").ok().and_then(|v| PROPS.iter().copied().find(|p| *p == v)))
}

fuzz_target!(|data: &[u8]| {
    let st = state();
    if data.len() < 4 {
        return;
    }
    let mut b = Bytes::new(data);
    let si = b.below(st.subjects.len());
    let pi = b.below(PROPS.len());
    let pi = only_prop().and_then(|p| PROPS.iter().position(|q| *q == p)).unwrap_or(pi);
    let ty = &st.u.subjects[si];
    let v = val_from_bytes(&st.u, ty, &mut b, 0);
    let mut entropy = b.rest();
    entropy.resize(96, 0x5a);
    let prop = PROPS[pi];
    let case = if matches!(prop, "C11" | "C15") { Val::Rec(vec![v, Val::P(entropy)]) } else { v };
    let ctx = Ctx {
        u: &st.u,
        model: Model::new(&st.u, &st.lay.0),
        units: &st.lay.1,
        tier: Tier::Quick,
        seed: 0,
        prop: prop.to_string(),
        cases: 1,
        tmp: std::path::PathBuf::from("/verif/work/tmp"),
        known: &st.known,
    };
    let mut rep = Report::default();
    voracles::checks::REPLAY_VAL.with(|c| *c.borrow_mut() = Some(case));
    if let Some(check) = voracles::checks::lookup(prop) {
        check(&ctx, &*st.subjects[si], ty, &mut rep);
    }
    voracles::checks::REPLAY_VAL.with(|c| *c.borrow_mut() = None);
    if let Some(f) = rep.failures.first() {
        if f.signature.starts_with("harness") && !st.strict {
            return;
        }
        // restore the default hook so that libFuzzer sees the crash
        let _ = std::panic::take_hook();
        panic!("VIOLATION property={} subject={} signature={} value={} :: {}", prop, f.subject, f.signature, f.val.as_ref().map(|v| v.show()).unwrap_or_default(), f.message);
    }
});
