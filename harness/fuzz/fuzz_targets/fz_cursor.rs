//! libFuzzer target for C19: bytes -> operation history -> AlignedCursor vs std::io::Cursor.
#![no_main]

use libfuzzer_sys::fuzz_target;
use voracles::checks::cursor::{run_with, Op, ALIGNMENTS};

struct Rd<'a> {
    d: &'a [u8],
    i: usize,
}
impl Rd<'_> {
    fn next(&mut self, n: usize) -> u64 {
        let mut x = 0u64;
        for _ in 0..n {
            x = (x << 8) | *self.d.get(self.i).unwrap_or(&0) as u64;
            self.i += 1;
        }
        x
    }
}

fn decode(data: &[u8]) -> (usize, Option<usize>, Vec<Op>) {
    let mut r = Rd { d: data, i: 0 };
    let align = r.next(1) as usize % ALIGNMENTS.len();
    let cap = match r.next(1) {
        0..=127 => None,
        c => Some((c as usize - 128) * 3),
    };
    let mut ops = vec![];
    while r.i < data.len() && ops.len() < 400 {
        let op = match r.next(1) % 14 {
            0 | 1 => {
                let n = r.next(1) as usize % 64;
                Op::Write((0..n).map(|_| r.next(1) as u8).collect())
            }
            2 => {
                let n = 1 + r.next(1) as usize % 63;
                Op::WriteAll((0..n).map(|_| r.next(1) as u8).collect())
            }
            3 => Op::Flush,
            4 => Op::Read(r.next(1) as usize % 64),
            // the top bit of the length byte selects `read_exact` (saved inputs stay valid histories)
            5 => {
                let b = r.next(1);
                if b & 0x80 != 0 {
                    Op::ReadExact(b as usize % 64)
                } else {
                    Op::Read(b as usize % 64)
                }
            }
            6 => Op::SeekStart(match r.next(1) {
                255 => u64::MAX,
                254 => 1 << 16,
                x => x * 17 % 5000,
            }),
            7 => Op::SeekCurrent(match r.next(1) {
                255 => i64::MAX,
                254 => i64::MIN,
                x => x as i64 - 128,
            }),
            8 => Op::SeekEnd(match r.next(1) {
                255 => i64::MAX,
                254 => i64::MIN,
                x => x as i64 - 128,
            }),
            9 => Op::SetPosition(r.next(2) % 6000),
            10 => Op::AsBytes,
            11 => Op::StreamPosition,
            12 => Op::CloneSwap,
            _ => Op::PokeMut(r.next(2) as usize % 6000, (r.next(1) as u8) | 1),
        };
        ops.push(op);
    }
    (align, cap, ops)
}

fuzz_target!(|data: &[u8]| {
    static INIT: std::sync::Once = std::sync::Once::new();
    INIT.call_once(voracles::runner::install_panic_hook);
    let (align, cap, ops) = decode(data);
    if let Err(e) = run_with(align, &ops, cap) {
        let _ = std::panic::take_hook();
        panic!("VIOLATION property=C19 AlignedCursor<{}> {}", ALIGNMENTS[align], e);
    }
});
