//! libFuzzer target for C19: bytes -> operation history -> AlignedCursor vs std::io::Cursor.
#![no_main]

use libfuzzer_sys::fuzz_target;
use voracles::checks::cursor::{run_with, Op, ALIGNMENTS};

fn decode(data: &[u8]) -> (usize, Option<usize>, Vec<Op>) {
    let mut i = 0;
    let mut next = |n: usize| -> u64 {
        let mut x = 0u64;
        for _ in 0..n {
            x = (x << 8) | *data.get(i).unwrap_or(&0) as u64;
            i += 1;
        }
        x
    };
    let align = next(1) as usize % ALIGNMENTS.len();
    let cap = match next(1) {
        0..=127 => None,
        c => Some((c as usize - 128) * 3),
    };
    let mut ops = vec![];
    while i < data.len() && ops.len() < 400 {
        let op = match next(1) % 12 {
            0 | 1 => {
                let n = next(1) as usize % 64;
                Op::Write((0..n).map(|_| next(1) as u8).collect())
            }
            2 => {
                let n = 1 + next(1) as usize % 63;
                Op::WriteAll((0..n).map(|_| next(1) as u8).collect())
            }
            3 => Op::Flush,
            4 | 5 => Op::Read(next(1) as usize % 64),
            6 => Op::SeekStart(match next(1) {
                255 => u64::MAX,
                254 => 1 << 16,
                x => x * 17 % 5000,
            }),
            7 => Op::SeekCurrent(match next(1) {
                255 => i64::MAX,
                254 => i64::MIN,
                x => x as i64 - 128,
            }),
            8 => Op::SeekEnd(match next(1) {
                255 => i64::MAX,
                254 => i64::MIN,
                x => x as i64 - 128,
            }),
            9 => Op::SetPosition(next(2) % 6000),
            10 => Op::AsBytes,
            _ => Op::StreamPosition,
        };
        ops.push(op);
    }
    (align, cap, ops)
}

fuzz_target!(|data: &[u8]| {
    static INIT: std::sync::Once = std::sync::Once::new();
    INIT.call_once(voracles::runner::install_panic_hook);
    let (align, cap, ops) = decode(data);
    if let Err(e) = run_with(align, &ops, cap) {
        let _ = std::panic::take_hook();
        panic!("VIOLATION property=C19 AlignedCursor<{}> {}", ALIGNMENTS[align], e);
    }
});
