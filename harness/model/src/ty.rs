//! Type descriptions: the model's view of the types ε-serde can (de)serialize.
//!
//! Everything here is independent of the code under test.

use serde::{Deserialize, Serialize};

#[derive(Clone, Copy, Debug, PartialEq, Eq, Hash, PartialOrd, Ord, Serialize, Deserialize)]
pub enum Prim {
    U8,
    U16,
    U32,
    U64,
    U128,
    Usize,
    I8,
    I16,
    I32,
    I64,
    I128,
    Isize,
    F32,
    F64,
    NzU8,
    NzU16,
    NzU32,
    NzU64,
    NzU128,
    NzUsize,
    NzI8,
    NzI16,
    NzI32,
    NzI64,
    NzI128,
    NzIsize,
    Bool,
    Char,
    Unit,
}

pub const ALL_PRIMS: [Prim; 29] = [
    Prim::U8,
    Prim::U16,
    Prim::U32,
    Prim::U64,
    Prim::U128,
    Prim::Usize,
    Prim::I8,
    Prim::I16,
    Prim::I32,
    Prim::I64,
    Prim::I128,
    Prim::Isize,
    Prim::F32,
    Prim::F64,
    Prim::NzU8,
    Prim::NzU16,
    Prim::NzU32,
    Prim::NzU64,
    Prim::NzU128,
    Prim::NzUsize,
    Prim::NzI8,
    Prim::NzI16,
    Prim::NzI32,
    Prim::NzI64,
    Prim::NzI128,
    Prim::NzIsize,
    Prim::Bool,
    Prim::Char,
    Prim::Unit,
];

impl Prim {
    /// Rust spelling (also the string hashed by the published type-hash recipe).
    pub fn rust(self) -> &'static str {
        use Prim::*;
        match self {
            U8 => "u8",
            U16 => "u16",
            U32 => "u32",
            U64 => "u64",
            U128 => "u128",
            Usize => "usize",
            I8 => "i8",
            I16 => "i16",
            I32 => "i32",
            I64 => "i64",
            I128 => "i128",
            Isize => "isize",
            F32 => "f32",
            F64 => "f64",
            NzU8 => "NonZeroU8",
            NzU16 => "NonZeroU16",
            NzU32 => "NonZeroU32",
            NzU64 => "NonZeroU64",
            NzU128 => "NonZeroU128",
            NzUsize => "NonZeroUsize",
            NzI8 => "NonZeroI8",
            NzI16 => "NonZeroI16",
            NzI32 => "NonZeroI32",
            NzI64 => "NonZeroI64",
            NzI128 => "NonZeroI128",
            NzIsize => "NonZeroIsize",
            Bool => "bool",
            Char => "char",
            Unit => "()",
        }
    }
    /// Path usable in generated code.
    pub fn rust_path(self) -> String {
        if self.is_nonzero() {
            format!("core::num::{}", self.rust())
        } else {
            self.rust().to_string()
        }
    }
    pub fn size(self) -> usize {
        use Prim::*;
        match self {
            U8 | I8 | NzU8 | NzI8 | Bool => 1,
            U16 | I16 | NzU16 | NzI16 => 2,
            U32 | I32 | F32 | NzU32 | NzI32 | Char => 4,
            U64 | I64 | F64 | NzU64 | NzI64 | Usize | Isize | NzUsize | NzIsize => 8,
            U128 | I128 | NzU128 | NzI128 => 16,
            Unit => 0,
        }
    }
    /// Native alignment on the only target this harness supports (x86_64 linux, rustc >= 1.77).
    pub fn align(self) -> usize {
        match self {
            Prim::Unit => 1,
            p => p.size(),
        }
    }
    pub fn is_nonzero(self) -> bool {
        use Prim::*;
        matches!(
            self,
            NzU8 | NzU16 | NzU32 | NzU64 | NzU128 | NzUsize | NzI8 | NzI16 | NzI32 | NzI64 | NzI128 | NzIsize
        )
    }
    /// underlying integer type of a NonZero primitive
    pub fn base(self) -> &'static str {
        use Prim::*;
        match self {
            NzU8 => "u8", NzU16 => "u16", NzU32 => "u32", NzU64 => "u64", NzU128 => "u128", NzUsize => "usize",
            NzI8 => "i8", NzI16 => "i16", NzI32 => "i32", NzI64 => "i64", NzI128 => "i128", NzIsize => "isize",
            p => p.rust(),
        }
    }
    pub fn is_float(self) -> bool {
        matches!(self, Prim::F32 | Prim::F64)
    }
    pub fn is_signed(self) -> bool {
        use Prim::*;
        matches!(self, I8 | I16 | I32 | I64 | I128 | Isize | NzI8 | NzI16 | NzI32 | NzI64 | NzI128 | NzIsize)
    }
}

/// The identifier of a variant: variant names may carry an explicit discriminant (`"Low = 1"`, unit variants
/// only), which is part of the definition's text but not of paths, patterns or hashes.
pub fn vident(name: &str) -> &str {
    name.split(" =").next().unwrap_or(name).trim()
}

#[derive(Clone, Copy, Debug, PartialEq, Eq, Hash, PartialOrd, Ord, Serialize, Deserialize)]
pub enum RangeKind {
    Range,
    RangeFrom,
    RangeInclusive,
    RangeTo,
    RangeToInclusive,
}

impl RangeKind {
    pub const ALL: [RangeKind; 5] = [
        RangeKind::Range,
        RangeKind::RangeFrom,
        RangeKind::RangeInclusive,
        RangeKind::RangeTo,
        RangeKind::RangeToInclusive,
    ];
    pub fn rust(self) -> &'static str {
        match self {
            RangeKind::Range => "Range",
            RangeKind::RangeFrom => "RangeFrom",
            RangeKind::RangeInclusive => "RangeInclusive",
            RangeKind::RangeTo => "RangeTo",
            RangeKind::RangeToInclusive => "RangeToInclusive",
        }
    }
    /// Number of index values written to the stream / kept by the value.
    pub fn arity(self) -> usize {
        match self {
            RangeKind::Range | RangeKind::RangeInclusive => 2,
            _ => 1,
        }
    }
    /// Whether the std type is `Copy` (only those can be zero-copy in the crate's sense).
    pub fn is_copy(self) -> bool {
        matches!(self, RangeKind::RangeTo | RangeKind::RangeToInclusive)
    }
}

/// A constant generic value.
#[derive(Clone, Copy, Debug, PartialEq, Eq, Hash, PartialOrd, Ord, Serialize, Deserialize)]
pub enum CVal {
    Usize(u64),
    Bool(bool),
    Char(char),
    I8(i8),
}

#[derive(Clone, Copy, Debug, PartialEq, Eq, Hash, PartialOrd, Ord, Serialize, Deserialize)]
pub enum CTy {
    Usize,
    Bool,
    Char,
    I8,
}

impl CTy {
    pub fn rust(self) -> &'static str {
        match self {
            CTy::Usize => "usize",
            CTy::Bool => "bool",
            CTy::Char => "char",
            CTy::I8 => "i8",
        }
    }
}

impl CVal {
    pub fn cty(self) -> CTy {
        match self {
            CVal::Usize(_) => CTy::Usize,
            CVal::Bool(_) => CTy::Bool,
            CVal::Char(_) => CTy::Char,
            CVal::I8(_) => CTy::I8,
        }
    }
    pub fn rust(self) -> String {
        match self {
            CVal::Usize(n) => format!("{}", n),
            CVal::Bool(b) => format!("{}", b),
            CVal::Char(c) => format!("'\\u{{{:x}}}'", c as u32),
            CVal::I8(i) => format!("{{ {} }}", i),
        }
    }
    pub fn as_usize(self) -> usize {
        match self {
            CVal::Usize(n) => n as usize,
            _ => panic!("const value is not a usize"),
        }
    }
}

/// A constant expression: literal or const parameter of the enclosing definition.
#[derive(Clone, Copy, Debug, PartialEq, Eq, Hash, PartialOrd, Ord, Serialize, Deserialize)]
pub enum CExpr {
    Lit(CVal),
    Param(usize),
}

/// A generic argument.
#[derive(Clone, Debug, PartialEq, Eq, Hash, PartialOrd, Ord, Serialize, Deserialize)]
pub enum Arg {
    Ty(Ty),
    Const(CExpr),
}

/// A type expression. `Param` only occurs inside definitions; a type without `Param` is closed.
#[derive(Clone, Debug, PartialEq, Eq, Hash, PartialOrd, Ord, Serialize, Deserialize)]
pub enum Ty {
    Prim(Prim),
    Phantom(Box<Ty>),
    String,
    BoxStr,
    Vec(Box<Ty>),
    BoxSlice(Box<Ty>),
    Array(Box<Ty>, CExpr),
    /// homogeneous tuple of arity 1..=12
    Tuple(Box<Ty>, usize),
    Option(Box<Ty>),
    Bound(Box<Ty>),
    ControlFlow(Box<Ty>, Box<Ty>),
    Range(RangeKind, Box<Ty>),
    RangeFull,
    Adt(usize, Vec<Arg>),
    Param(usize),
}

#[derive(Clone, Copy, Debug, PartialEq, Eq, Hash, PartialOrd, Ord, Serialize, Deserialize)]
pub enum CopyKind {
    /// `#[zero_copy]` (+ `#[repr(C)]`)
    Zero,
    /// `#[deep_copy]`
    DeepAttr,
    /// no attribute
    DeepPlain,
}

#[derive(Clone, Debug, PartialEq, Eq, Hash, PartialOrd, Ord, Serialize, Deserialize)]
pub enum ParamDef {
    Type {
        name: String,
        /// inline bounds, as Rust paths
        bounds: Vec<String>,
        default: Option<Ty>,
    },
    Const {
        name: String,
        cty: CTy,
        default: Option<CVal>,
    },
}

impl ParamDef {
    pub fn name(&self) -> &str {
        match self {
            ParamDef::Type { name, .. } | ParamDef::Const { name, .. } => name,
        }
    }
    pub fn is_type(&self) -> bool {
        matches!(self, ParamDef::Type { .. })
    }
}

#[derive(Clone, Debug, PartialEq, Eq, Hash, PartialOrd, Ord, Serialize, Deserialize)]
pub enum Fields {
    Unit,
    Tuple(Vec<Ty>),
    Named(Vec<(String, Ty)>),
}

impl Fields {
    pub fn types(&self) -> Vec<&Ty> {
        match self {
            Fields::Unit => vec![],
            Fields::Tuple(v) => v.iter().collect(),
            Fields::Named(v) => v.iter().map(|(_, t)| t).collect(),
        }
    }
    pub fn types_mut(&mut self) -> Vec<&mut Ty> {
        match self {
            Fields::Unit => vec![],
            Fields::Tuple(v) => v.iter_mut().collect(),
            Fields::Named(v) => v.iter_mut().map(|(_, t)| t).collect(),
        }
    }
    /// Field names as hashed by the published recipe ("0", "1", … for tuple fields).
    pub fn names(&self) -> Vec<String> {
        match self {
            Fields::Unit => vec![],
            Fields::Tuple(v) => (0..v.len()).map(|i| i.to_string()).collect(),
            Fields::Named(v) => v.iter().map(|(n, _)| n.clone()).collect(),
        }
    }
    pub fn len(&self) -> usize {
        self.types().len()
    }
    pub fn is_empty(&self) -> bool {
        self.len() == 0
    }
}

#[derive(Clone, Debug, PartialEq, Eq, Hash, PartialOrd, Ord, Serialize, Deserialize)]
pub enum Body {
    Struct(Fields),
    Enum(Vec<(String, Fields)>),
}

#[derive(Clone, Debug, PartialEq, Eq, Hash, PartialOrd, Ord, Serialize, Deserialize)]
pub struct AdtDef {
    /// Rust identifier of the type (may be a raw identifier `r#type`)
    pub name: String,
    /// module (inside the generated crate) the definition lives in; "" = crate root of the universe
    pub module: String,
    pub copy: CopyKind,
    /// `#[repr(..)]` attribute contents in source order, e.g. ["C", "align(8)"]
    pub reprs: Vec<String>,
    pub params: Vec<ParamDef>,
    /// where-clause predicates: (parameter index, bounds)
    pub where_preds: Vec<(usize, Vec<String>)>,
    pub body: Body,
    /// index of the definition this one was mutated from (near-miss mutants), if any
    pub mutant_of: Option<usize>,
    /// free-text description of the mutation
    pub mutation: Option<String>,
}

impl AdtDef {
    pub fn is_zero(&self) -> bool {
        self.copy == CopyKind::Zero
    }
    /// name without raw-identifier prefix: what `Ident::to_string()`… no: the derive hashes
    /// `name.to_string()`, which keeps `r#`. So the hashed name is `self.name` verbatim.
    pub fn hashed_name(&self) -> &str {
        &self.name
    }
    pub fn all_fields(&self) -> Vec<&Ty> {
        match &self.body {
            Body::Struct(f) => f.types(),
            Body::Enum(vs) => vs.iter().flat_map(|(_, f)| f.types()).collect(),
        }
    }
    /// A type parameter is a *field parameter* when some field has exactly that type.
    pub fn is_field_param(&self, idx: usize) -> bool {
        self.all_fields().iter().any(|t| **t == Ty::Param(idx))
    }
    pub fn n_variants(&self) -> usize {
        match &self.body {
            Body::Struct(_) => 1,
            Body::Enum(v) => v.len(),
        }
    }
    pub fn variant_fields(&self, idx: usize) -> &Fields {
        match &self.body {
            Body::Struct(f) => f,
            Body::Enum(v) => &v[idx].1,
        }
    }
}

/// A set of definitions plus the closed types to test.
#[derive(Clone, Debug, PartialEq, Eq, Serialize, Deserialize)]
pub struct Universe {
    pub label: String,
    pub adts: Vec<AdtDef>,
    pub subjects: Vec<Ty>,
    /// near-miss pairs (indices into `subjects`): (T, mutant(T)), used by C04
    #[serde(default)]
    pub pairs: Vec<(usize, usize)>,
}

impl Ty {
    pub fn prim(p: Prim) -> Ty {
        Ty::Prim(p)
    }
    pub fn vec(t: Ty) -> Ty {
        Ty::Vec(Box::new(t))
    }
    pub fn bslice(t: Ty) -> Ty {
        Ty::BoxSlice(Box::new(t))
    }
    pub fn arr(t: Ty, n: usize) -> Ty {
        Ty::Array(Box::new(t), CExpr::Lit(CVal::Usize(n as u64)))
    }
    pub fn tup(t: Ty, n: usize) -> Ty {
        Ty::Tuple(Box::new(t), n)
    }
    pub fn opt(t: Ty) -> Ty {
        Ty::Option(Box::new(t))
    }
    pub fn bound(t: Ty) -> Ty {
        Ty::Bound(Box::new(t))
    }
    pub fn cf(b: Ty, c: Ty) -> Ty {
        Ty::ControlFlow(Box::new(b), Box::new(c))
    }
    pub fn range(k: RangeKind, t: Ty) -> Ty {
        Ty::Range(k, Box::new(t))
    }
    pub fn phantom(t: Ty) -> Ty {
        Ty::Phantom(Box::new(t))
    }
    pub fn adt(i: usize, args: Vec<Arg>) -> Ty {
        Ty::Adt(i, args)
    }

    /// Substitute parameters by arguments (instantiation of a field type).
    pub fn subst(&self, args: &[Arg]) -> Ty {
        let s = |t: &Ty| Box::new(t.subst(args));
        let sc = |c: &CExpr| match c {
            CExpr::Lit(_) => *c,
            CExpr::Param(i) => match &args[*i] {
                Arg::Const(c) => *c,
                Arg::Ty(_) => panic!("const parameter instantiated by a type"),
            },
        };
        match self {
            Ty::Prim(_) | Ty::String | Ty::BoxStr | Ty::RangeFull => self.clone(),
            Ty::Phantom(t) => Ty::Phantom(s(t)),
            Ty::Vec(t) => Ty::Vec(s(t)),
            Ty::BoxSlice(t) => Ty::BoxSlice(s(t)),
            Ty::Array(t, n) => Ty::Array(s(t), sc(n)),
            Ty::Tuple(t, n) => Ty::Tuple(s(t), *n),
            Ty::Option(t) => Ty::Option(s(t)),
            Ty::Bound(t) => Ty::Bound(s(t)),
            Ty::ControlFlow(b, c) => Ty::ControlFlow(s(b), s(c)),
            Ty::Range(k, t) => Ty::Range(*k, s(t)),
            Ty::Adt(i, a) => Ty::Adt(
                *i,
                a.iter()
                    .map(|x| match x {
                        Arg::Ty(t) => Arg::Ty(t.subst(args)),
                        Arg::Const(c) => Arg::Const(sc(c)),
                    })
                    .collect(),
            ),
            Ty::Param(i) => match &args[*i] {
                Arg::Ty(t) => t.clone(),
                Arg::Const(_) => panic!("type parameter instantiated by a const"),
            },
        }
    }

    pub fn is_closed(&self) -> bool {
        let cc = |c: &CExpr| matches!(c, CExpr::Lit(_));
        match self {
            Ty::Prim(_) | Ty::String | Ty::BoxStr | Ty::RangeFull => true,
            Ty::Phantom(t) | Ty::Vec(t) | Ty::BoxSlice(t) | Ty::Option(t) | Ty::Bound(t) | Ty::Range(_, t) | Ty::Tuple(t, _) => {
                t.is_closed()
            }
            Ty::Array(t, n) => t.is_closed() && cc(n),
            Ty::ControlFlow(b, c) => b.is_closed() && c.is_closed(),
            Ty::Adt(_, a) => a.iter().all(|x| match x {
                Arg::Ty(t) => t.is_closed(),
                Arg::Const(c) => cc(c),
            }),
            Ty::Param(_) => false,
        }
    }

    pub fn mentions_param(&self, idx: usize) -> bool {
        match self {
            Ty::Prim(_) | Ty::String | Ty::BoxStr | Ty::RangeFull => false,
            Ty::Phantom(t) | Ty::Vec(t) | Ty::BoxSlice(t) | Ty::Option(t) | Ty::Bound(t) | Ty::Range(_, t) | Ty::Tuple(t, _) => {
                t.mentions_param(idx)
            }
            Ty::Array(t, n) => t.mentions_param(idx) || *n == CExpr::Param(idx),
            Ty::ControlFlow(b, c) => b.mentions_param(idx) || c.mentions_param(idx),
            Ty::Adt(_, a) => a.iter().any(|x| match x {
                Arg::Ty(t) => t.mentions_param(idx),
                Arg::Const(c) => *c == CExpr::Param(idx),
            }),
            Ty::Param(i) => *i == idx,
        }
    }

    pub fn array_len(&self) -> usize {
        match self {
            Ty::Array(_, CExpr::Lit(c)) => c.as_usize(),
            _ => panic!("array_len on non-closed-array"),
        }
    }
}

impl Universe {
    /// Instantiated fields of variant `var` of closed ADT type `Adt(i, args)`.
    pub fn inst_fields(&self, adt: usize, args: &[Arg], var: usize) -> Vec<Ty> {
        self.adts[adt].variant_fields(var).types().iter().map(|t| t.subst(args)).collect()
    }

    /// Copy kind of a closed type in the crate's sense: true = zero-copy.
    pub fn is_zero(&self, t: &Ty) -> bool {
        match t {
            Ty::Prim(_) | Ty::Phantom(_) | Ty::RangeFull | Ty::Tuple(..) => true,
            Ty::Range(..) => true,
            Ty::Array(e, _) => self.is_zero(e),
            Ty::String | Ty::BoxStr | Ty::Vec(_) | Ty::BoxSlice(_) | Ty::Option(_) | Ty::Bound(_) | Ty::ControlFlow(..) => false,
            Ty::Adt(i, _) => self.adts[*i].is_zero(),
            Ty::Param(_) => panic!("is_zero on open type"),
        }
    }

    /// Whether the Rust type is `Copy` (needed for the crate's `ZeroCopy` marker).
    pub fn is_rust_copy(&self, t: &Ty) -> bool {
        match t {
            Ty::Prim(_) | Ty::Phantom(_) | Ty::RangeFull => true,
            Ty::Tuple(e, _) | Ty::Array(e, _) => self.is_rust_copy(e),
            Ty::Range(k, e) => k.is_copy() && self.is_rust_copy(e),
            Ty::Adt(i, _) => self.adts[*i].is_zero(),
            _ => false,
        }
    }

    /// Usable as an element of a zero-copy sequence / field of a zero-copy ADT.
    pub fn is_zero_elem(&self, t: &Ty) -> bool {
        self.is_zero(t) && self.is_rust_copy(t)
    }

    /// All closed types reachable from the subjects (subjects first, then components), deduplicated,
    /// in a deterministic order such that components come after their users.
    pub fn closure(&self) -> Vec<Ty> {
        let mut out: Vec<Ty> = Vec::new();
        let mut seen = std::collections::BTreeSet::new();
        let mut stack: Vec<Ty> = self.subjects.iter().rev().cloned().collect();
        while let Some(t) = stack.pop() {
            if !seen.insert(t.clone()) {
                continue;
            }
            let mut kids = self.components(&t);
            kids.reverse();
            stack.extend(kids);
            out.push(t);
        }
        out
    }

    /// Immediate component types of a closed type whose values appear inside its values.
    pub fn components(&self, t: &Ty) -> Vec<Ty> {
        match t {
            Ty::Prim(_) | Ty::String | Ty::BoxStr | Ty::RangeFull | Ty::Phantom(_) => vec![],
            Ty::Vec(e) | Ty::BoxSlice(e) | Ty::Array(e, _) | Ty::Tuple(e, _) | Ty::Option(e) | Ty::Bound(e) | Ty::Range(_, e) => {
                vec![(**e).clone()]
            }
            Ty::ControlFlow(b, c) => vec![(**b).clone(), (**c).clone()],
            Ty::Adt(i, args) => {
                let mut v = vec![];
                for var in 0..self.adts[*i].n_variants() {
                    v.extend(self.inst_fields(*i, args, var));
                }
                v
            }
            Ty::Param(_) => panic!("components of open type"),
        }
    }
}
