//! Near-miss mutants of definitions and closed types (C04), and the structural description that
//! decides whether two closed types have "the same serialized structure".

use crate::format::Model;
use crate::gen::Src;
use crate::ty::*;
use std::fmt::Write as _;

fn same_size_alternatives(p: Prim) -> Vec<Prim> {
    use Prim::*;
    let groups: [&[Prim]; 4] = [&[U8, I8, Bool], &[U16, I16], &[U32, I32, F32, Char], &[U64, I64, F64, Usize, Isize]];
    for g in groups {
        if g.contains(&p) {
            return g.iter().copied().filter(|q| *q != p).collect();
        }
    }
    vec![]
}

fn all_fields_mut(b: &mut Body) -> Vec<&mut Fields> {
    match b {
        Body::Struct(f) => vec![f],
        Body::Enum(vs) => vs.iter_mut().map(|(_, f)| f).collect(),
    }
}

/// Try to apply mutation `kind` to `def`; returns a description when applicable.
fn apply(u: &Universe, def: &mut AdtDef, kind: usize, src: &mut Src) -> Option<String> {
    match kind {
        0 => {
            // rename one field
            for f in all_fields_mut(&mut def.body) {
                if let Fields::Named(v) = f {
                    if !v.is_empty() {
                        let i = src.pick(v.len());
                        let old = v[i].0.clone();
                        let base = old.trim_start_matches("r#").to_string();
                        v[i].0 = format!("{}_x", base);
                        return Some(format!("field {} renamed", old));
                    }
                }
            }
            None
        }
        1 => {
            // swap two adjacent fields
            for f in all_fields_mut(&mut def.body) {
                match f {
                    Fields::Named(v) if v.len() >= 2 => {
                        let i = src.pick(v.len() - 1);
                        if v[i] != v[i + 1] {
                            v.swap(i, i + 1);
                            return Some(format!("fields {} and {} swapped", i, i + 1));
                        }
                    }
                    Fields::Tuple(v) if v.len() >= 2 => {
                        let i = src.pick(v.len() - 1);
                        if v[i] != v[i + 1] {
                            v.swap(i, i + 1);
                            return Some(format!("fields {} and {} swapped", i, i + 1));
                        }
                    }
                    _ => {}
                }
            }
            None
        }
        2 => {
            // replace a primitive field type by a same-size type
            for f in all_fields_mut(&mut def.body) {
                for t in f.types_mut() {
                    let target: Option<&mut Ty> = match t {
                        Ty::Prim(_) => Some(t),
                        Ty::Vec(e) | Ty::BoxSlice(e) | Ty::Option(e) => match **e {
                            Ty::Prim(_) => Some(&mut **e),
                            _ => None,
                        },
                        _ => None,
                    };
                    if let Some(Ty::Prim(p)) = target {
                        let alts = same_size_alternatives(*p);
                        if !alts.is_empty() {
                            let old = *p;
                            *p = alts[src.pick(alts.len())];
                            return Some(format!("field type {} replaced by same-size {}", old.rust(), p.rust()));
                        }
                    }
                }
            }
            None
        }
        3 => {
            // toggle copy kind
            if def.is_zero() {
                def.copy = CopyKind::DeepAttr;
                Some("zero-copy declared deep-copy".into())
            } else if def.params.iter().all(|p| !p.is_type()) && def.all_fields().iter().all(|t| t.is_closed() && u.is_zero_elem(t)) && !def.all_fields().is_empty() {
                def.copy = CopyKind::Zero;
                if !def.reprs.iter().any(|r| r == "C") {
                    def.reprs.insert(0, "C".into());
                }
                Some("deep-copy declared zero-copy".into())
            } else {
                None
            }
        }
        4 => {
            // rename a const parameter
            for p in def.params.iter_mut() {
                if let ParamDef::Const { name, .. } = p {
                    let old = name.clone();
                    *name = format!("{}{}", old, old);
                    return Some(format!("const parameter {} renamed", old));
                }
            }
            None
        }
        5 => {
            // rename or swap variants
            if let Body::Enum(vs) = &mut def.body {
                if vs.len() >= 2 && src.chance(1, 2) {
                    let i = src.pick(vs.len() - 1);
                    vs.swap(i, i + 1);
                    return Some(format!("variants {} and {} swapped", i, i + 1));
                }
                if !vs.is_empty() {
                    let i = src.pick(vs.len());
                    let old = vs[i].0.clone();
                    vs[i].0 = format!("{}X", old.trim_start_matches("r#"));
                    return Some(format!("variant {} renamed", old));
                }
            }
            None
        }
        6 => {
            // representation attribute (packed and align exclude each other)
            if def.is_zero() && !def.reprs.iter().any(|r| r.contains("packed")) {
                if let Some(r) = def.reprs.iter_mut().find(|r| r.starts_with("align(")) {
                    let old = r.clone();
                    *r = if old == "align(64)" { "align(32)".into() } else { "align(64)".into() };
                    Some(format!("repr({}) changed to repr({})", old, r))
                } else {
                    let a = [2usize, 4, 8, 16, 32][src.pick(5)];
                    def.reprs.push(format!("align({})", a));
                    Some(format!("repr(align({})) added", a))
                }
            } else {
                None
            }
        }
        7 => {
            // array length / tuple arity / sequence kind of a field
            for f in all_fields_mut(&mut def.body) {
                for t in f.types_mut() {
                    match t {
                        Ty::Array(_, CExpr::Lit(CVal::Usize(n))) => {
                            *n += 1;
                            return Some("array length increased".into());
                        }
                        Ty::Tuple(_, n) => {
                            if *n < 12 {
                                *n += 1;
                            } else {
                                *n -= 1;
                            }
                            return Some("tuple arity changed".into());
                        }
                        Ty::Vec(e) => {
                            let e = e.clone();
                            *t = Ty::BoxSlice(e);
                            return Some("Vec replaced by Box<[]>".into());
                        }
                        Ty::BoxSlice(e) => {
                            let e = e.clone();
                            *t = Ty::Vec(e);
                            return Some("Box<[]> replaced by Vec".into());
                        }
                        Ty::String => {
                            *t = Ty::BoxStr;
                            return Some("String replaced by Box<str>".into());
                        }
                        _ => {}
                    }
                }
            }
            None
        }
        8 => {
            // same structure, different type name
            def.name = format!("{}R", def.name);
            Some("type renamed".into())
        }
        9 => {
            // move one letter from the end of a field name to the start of the next one: `(ab, c)` -> `(a, bc)`.
            // The concatenation of the names is unchanged: only a hash that separates the names tells them apart.
            const KW: [&str; 14] = ["as", "do", "fn", "if", "in", "let", "mod", "mut", "pub", "ref", "use", "for", "dyn", "box"];
            for f in all_fields_mut(&mut def.body) {
                if let Fields::Named(v) = f {
                    for i in 0..v.len().saturating_sub(1) {
                        let (a, b) = (v[i].0.clone(), v[i + 1].0.clone());
                        if a.starts_with("r#") || b.starts_with("r#") || a.starts_with('_') || !a.is_ascii() || a.len() < 2 {
                            continue;
                        }
                        let (na, nb) = (a[..a.len() - 1].to_string(), format!("{}{}", &a[a.len() - 1..], b));
                        let taken = |n: &str| v.iter().any(|(x, _)| x == n) || KW.contains(&n);
                        if taken(&na) || taken(&nb) || na.ends_with('_') && na.len() == 1 {
                            continue;
                        }
                        v[i].0 = na;
                        v[i + 1].0 = nb;
                        return Some(format!("last letter of field {} moved to the front of field {}", a, b));
                    }
                }
            }
            None
        }
        _ => {
            // positive control: identical structure in another module (deep attribute spelling toggled)
            match def.copy {
                CopyKind::DeepAttr => def.copy = CopyKind::DeepPlain,
                CopyKind::DeepPlain => def.copy = CopyKind::DeepAttr,
                CopyKind::Zero => {}
            }
            Some("identical definition in another module".into())
        }
    }
}

pub const N_MUTATIONS: usize = 11;

/// Replace definition `from` by `to` everywhere in a closed type.
pub fn retarget(t: &Ty, from: usize, to: usize) -> Ty {
    let r = |x: &Ty| Box::new(retarget(x, from, to));
    match t {
        Ty::Prim(_) | Ty::String | Ty::BoxStr | Ty::RangeFull | Ty::Param(_) => t.clone(),
        Ty::Phantom(e) => Ty::Phantom(r(e)),
        Ty::Vec(e) => Ty::Vec(r(e)),
        Ty::BoxSlice(e) => Ty::BoxSlice(r(e)),
        Ty::Array(e, n) => Ty::Array(r(e), *n),
        Ty::Tuple(e, n) => Ty::Tuple(r(e), *n),
        Ty::Option(e) => Ty::Option(r(e)),
        Ty::Bound(e) => Ty::Bound(r(e)),
        Ty::ControlFlow(b, c) => Ty::ControlFlow(r(b), r(c)),
        Ty::Range(k, e) => Ty::Range(*k, r(e)),
        Ty::Adt(i, args) => Ty::Adt(
            if *i == from { to } else { *i },
            args.iter()
                .map(|a| match a {
                    Arg::Ty(t) => Arg::Ty(retarget(t, from, to)),
                    c => c.clone(),
                })
                .collect(),
        ),
    }
}

fn mentions_adt(u: &Universe, t: &Ty, i: usize) -> bool {
    match t {
        Ty::Adt(j, args) => {
            *j == i
                || args.iter().any(|a| matches!(a, Arg::Ty(t) if mentions_adt(u, t, i)))
        }
        Ty::Phantom(e) => mentions_adt(u, e, i),
        Ty::Param(_) => false,
        _ => u.components(t).iter().any(|c| mentions_adt(u, c, i)),
    }
}

/// Whether a closed type is still valid after retargeting (copy-kind toggles can invalidate uses).
fn valid_closed(u: &Universe, t: &Ty) -> bool {
    match t {
        Ty::Prim(_) | Ty::String | Ty::BoxStr | Ty::RangeFull | Ty::Phantom(_) => true,
        Ty::Vec(e) | Ty::BoxSlice(e) | Ty::Array(e, _) => valid_closed(u, e) && (!u.is_zero(e) || u.is_zero_elem(e)) && !(u.is_zero(e) && crate::gen::zst_like(u, e)),
        Ty::Tuple(e, _) => valid_closed(u, e) && u.is_zero_elem(e) && !crate::gen::zst_like(u, e),
        Ty::Option(e) | Ty::Bound(e) => valid_closed(u, e),
        Ty::ControlFlow(b, c) => valid_closed(u, b) && valid_closed(u, c),
        Ty::Range(_, e) => matches!(**e, Ty::Prim(_)),
        Ty::Adt(i, args) => {
            let d = &u.adts[*i];
            for (k, a) in args.iter().enumerate() {
                if let (Arg::Ty(t), ParamDef::Type { bounds, .. }) = (a, &d.params[k]) {
                    if !valid_closed(u, t) {
                        return false;
                    }
                    if bounds.iter().any(|b| b.ends_with("ZeroCopy")) && !u.is_zero_elem(t) {
                        return false;
                    }
                    // a deep-copy type replicates the bounds of a field parameter on the parameter's ε-copy type:
                    // with a `ZeroCopy` bound only arguments whose ε-copy type is the type itself are usable
                    if !d.is_zero() && d.is_field_param(k) && bounds.iter().any(|b| b.ends_with("ZeroCopy")) && !matches!(t, Ty::Prim(_) | Ty::Phantom(_) | Ty::RangeFull) {
                        return false;
                    }
                    if bounds.iter().any(|b| b.ends_with("DeepCopy")) && u.is_zero(t) {
                        return false;
                    }
                }
            }
            (0..d.n_variants()).all(|v| {
                u.inst_fields(*i, args, v).iter().all(|f| valid_closed(u, f) && (!d.is_zero() || u.is_zero_elem(f)))
            })
        }
        Ty::Param(_) => false,
    }
}

/// Append mutants of the first `n_orig` definitions, retargeted subjects and the (T, mutant(T)) pairs.
pub fn add_mutants(u: &mut Universe, src: &mut Src, per_adt: usize, max_subjects_per_mutant: usize) {
    let n_orig = u.adts.len();
    let orig_subjects = u.subjects.clone();
    for i in 0..n_orig {
        let mut kinds_used = vec![];
        for k in 0..per_adt {
            // try a few kinds until one applies
            let mut made = None;
            for attempt in 0..6 {
                let kind = (src.pick(N_MUTATIONS) + attempt) % N_MUTATIONS;
                if kinds_used.contains(&kind) {
                    continue;
                }
                let mut d = u.adts[i].clone();
                if let Some(what) = apply(u, &mut d, kind, src) {
                    kinds_used.push(kind);
                    d.module = format!("m{}_{}", i, k);
                    d.mutant_of = Some(i);
                    d.mutation = Some(what);
                    made = Some(d);
                    break;
                }
            }
            let Some(d) = made else { continue };
            u.adts.push(d);
            let new = u.adts.len() - 1;
            let mut added = 0;
            for (si, s) in orig_subjects.iter().enumerate() {
                if added >= max_subjects_per_mutant {
                    break;
                }
                if !mentions_adt(u, s, i) {
                    continue;
                }
                let t = retarget(s, i, new);
                if !valid_closed(u, &t) || crate::gen::has_zst_block(u, &t) {
                    continue;
                }
                let ti = match u.subjects.iter().position(|x| *x == t) {
                    Some(p) => p,
                    None => {
                        u.subjects.push(t);
                        u.subjects.len() - 1
                    }
                };
                u.pairs.push((si, ti));
                added += 1;
            }
        }
    }
}

/// For enums with a unit variant (up to `max` definitions): one mutant with that variant renamed and one with it
/// exchanged with a neighbour (a unit variant carries no field, so only its own name and position tell the
/// definitions apart; the random kind 5 above seldom lands on one). Registered like the mutants of `add_mutants`.
pub fn add_unit_variant_mutants(u: &mut Universe, max: usize) {
    let n_orig = u.adts.len();
    let orig_subjects = u.subjects.clone();
    let mut done = 0;
    for i in 0..n_orig {
        if done >= max || u.adts[i].mutant_of.is_some() {
            continue;
        }
        let Body::Enum(vs) = &u.adts[i].body else { continue };
        let Some(k) = vs.iter().position(|(_, f)| matches!(f, Fields::Unit)) else { continue };
        let mut made = vec![];
        {
            let mut d = u.adts[i].clone();
            if let Body::Enum(vs) = &mut d.body {
                let old = vs[k].0.clone();
                vs[k].0 = format!("{}X", old.trim_start_matches("r#"));
                d.mutation = Some(format!("unit variant {} renamed", old));
            }
            made.push(d);
        }
        if vs.len() >= 2 {
            let mut d = u.adts[i].clone();
            if let Body::Enum(vs) = &mut d.body {
                let j = if k + 1 < vs.len() { k + 1 } else { k - 1 };
                vs.swap(k, j);
                d.mutation = Some(format!("unit variant {} exchanged with variant {}", k, j));
            }
            made.push(d);
        }
        done += 1;
        for (n, mut d) in made.into_iter().enumerate() {
            d.module = format!("uv{}_{}", i, n);
            d.mutant_of = Some(i);
            u.adts.push(d);
            let new = u.adts.len() - 1;
            for (si, s) in orig_subjects.iter().enumerate() {
                if !mentions_adt(u, s, i) {
                    continue;
                }
                let t = retarget(s, i, new);
                if !valid_closed(u, &t) || crate::gen::has_zst_block(u, &t) {
                    continue;
                }
                let ti = match u.subjects.iter().position(|x| *x == t) {
                    Some(p) => p,
                    None => {
                        u.subjects.push(t);
                        u.subjects.len() - 1
                    }
                };
                u.pairs.push((si, ti));
                break;
            }
        }
    }
}

/// For every zero-copy definition (up to `max`): two copies that differ from each other only in the
/// argument of `repr(align(N))` (16 vs 32), with retargeted subjects paired with each other and with the
/// original. Sizes usually coincide, so only the attribute text tells them apart.
pub fn add_align_pairs(u: &mut Universe, max: usize) {
    let n_orig = u.adts.len();
    let orig_subjects = u.subjects.clone();
    let mut done = 0;
    for i in 0..n_orig {
        if done >= max || !u.adts[i].is_zero() || u.adts[i].mutant_of.is_some() || u.adts[i].reprs.iter().any(|r| r.contains("packed")) {
            continue;
        }
        let mut ids = vec![];
        for (k, a) in [16usize, 32].iter().enumerate() {
            let mut d = u.adts[i].clone();
            d.reprs.retain(|r| !r.starts_with("align("));
            d.reprs.push(format!("align({})", a));
            d.module = format!("al{}_{}", i, k);
            d.mutant_of = Some(i);
            d.mutation = Some(format!("repr(align({})) set", a));
            u.adts.push(d);
            ids.push(u.adts.len() - 1);
        }
        let mut added = 0;
        for (si, s) in orig_subjects.iter().enumerate() {
            if added >= 2 {
                break;
            }
            if !mentions_adt(u, s, i) {
                continue;
            }
            let ts: Vec<Ty> = ids.iter().map(|n| retarget(s, i, *n)).collect();
            if ts.iter().any(|t| !valid_closed(u, t) || crate::gen::has_zst_block(u, t)) {
                continue;
            }
            let mut idx = vec![si];
            for t in ts {
                let ti = match u.subjects.iter().position(|x| *x == t) {
                    Some(p) => p,
                    None => {
                        u.subjects.push(t);
                        u.subjects.len() - 1
                    }
                };
                idx.push(ti);
            }
            u.pairs.push((idx[0], idx[1]));
            u.pairs.push((idx[0], idx[2]));
            u.pairs.push((idx[1], idx[2]));
            added += 1;
        }
        done += 1;
    }
}

/// Pairs of definitions with the *same name* and a one-mutation difference, each rendered in its own anonymous
/// const block: both have the same `core::any::type_name`, as a struct edited between two builds of a program
/// would. (Anything keyed by the type's name instead of its structure confuses them.)
pub fn add_twins(u: &mut Universe, src: &mut Src, n: usize) {
    use crate::ty::Prim::*;
    let prims = [U8, U16, U32, U64, I32, I64, F32, Bool, Char];
    for k in 0..n {
        let f = |src: &mut Src| Ty::Prim(prims[src.pick(prims.len())]);
        let fields = vec![
            ("a".to_string(), f(src)),
            ("b".to_string(), if src.chance(1, 2) { Ty::vec(f(src)) } else { Ty::String }),
            ("c".to_string(), f(src)),
            ("d".to_string(), Ty::opt(f(src))),
        ];
        let zero = src.chance(1, 3);
        let base = AdtDef {
            name: "T".into(),
            module: format!("twin{}a", k),
            copy: if zero { CopyKind::Zero } else { CopyKind::DeepAttr },
            reprs: if zero { vec!["C".into()] } else { vec![] },
            params: vec![],
            where_preds: vec![],
            body: Body::Struct(Fields::Named(if zero { vec![fields[0].clone(), fields[2].clone(), ("e".to_string(), Ty::arr(f(src), 3))] } else { fields })),
            mutant_of: None,
            mutation: None,
        };
        let mut other = None;
        for attempt in 0..8 {
            let kind = (src.pick(8) + attempt) % 8; // never "type renamed" (8); 9 = identical copy handled below
            let mut d = base.clone();
            if let Some(what) = apply(u, &mut d, kind, src) {
                d.mutation = Some(format!("same type name, {}", what));
                other = Some(d);
                break;
            }
        }
        let Some(mut other) = other else { continue };
        other.module = format!("twin{}b", k);
        u.adts.push(base);
        let ia = u.adts.len() - 1;
        other.mutant_of = Some(ia);
        u.adts.push(other);
        let ib = u.adts.len() - 1;
        u.subjects.push(Ty::adt(ia, vec![]));
        u.subjects.push(Ty::adt(ib, vec![]));
        u.pairs.push((u.subjects.len() - 2, u.subjects.len() - 1));
    }
}

/// A hand-made twin pair: two zero-copy structures of the same name whose alignment units differ (1/2 against
/// 8/16), so that anything remembered per type *name* about units or layouts is wrong for one of them.
pub fn add_unit_twins(u: &mut Universe) {
    use crate::ty::Prim::*;
    let mk = |k: usize, side: &str, small: Prim, big: Prim| AdtDef {
        name: "T".into(),
        module: format!("twinu{}{}", k, side),
        copy: CopyKind::Zero,
        reprs: vec!["C".into()],
        params: vec![],
        where_preds: vec![],
        body: Body::Struct(Fields::Named(vec![("a".to_string(), Ty::Prim(small)), ("b".to_string(), Ty::Prim(big)), ("c".to_string(), Ty::arr(Ty::Prim(small), 3))])),
        mutant_of: None,
        mutation: None,
    };
    for (k, (s1, b1, s2, b2)) in [(U8, U16, U8, U64), (U8, U8, U32, U128), (U64, U64, U8, U16)].into_iter().enumerate() {
        u.adts.push(mk(k, "a", s1, b1));
        let ia = u.adts.len() - 1;
        let mut d = mk(k, "b", s2, b2);
        d.mutant_of = Some(ia);
        d.mutation = Some("same type name, field types of another width".into());
        u.adts.push(d);
        let ib = u.adts.len() - 1;
        u.subjects.push(Ty::adt(ia, vec![]));
        u.subjects.push(Ty::adt(ib, vec![]));
        u.pairs.push((u.subjects.len() - 2, u.subjects.len() - 1));
    }
}

/// Near-miss variants of a built-in closed type (sequence kind, array length, tuple arity, same-size
/// primitive, option/bound), each a valid closed type.
pub fn builtin_near_misses(u: &Universe, t: &Ty) -> Vec<Ty> {
    let mut out = vec![];
    match t {
        Ty::Vec(e) => out.push(Ty::BoxSlice(e.clone())),
        Ty::BoxSlice(e) => out.push(Ty::Vec(e.clone())),
        Ty::String => out.push(Ty::BoxStr),
        Ty::BoxStr => out.push(Ty::String),
        Ty::Array(e, CExpr::Lit(CVal::Usize(n))) => out.push(Ty::Array(e.clone(), CExpr::Lit(CVal::Usize(n + 1)))),
        Ty::Tuple(e, n) => out.push(Ty::Tuple(e.clone(), if *n < 12 { n + 1 } else { n - 1 })),
        Ty::Option(e) => out.push(Ty::Bound(e.clone())),
        Ty::Bound(e) => out.push(Ty::Option(e.clone())),
        Ty::Prim(p) => out.extend(same_size_alternatives(*p).into_iter().map(Ty::Prim)),
        Ty::Range(k, e) => {
            for k2 in RangeKind::ALL {
                if k2 != *k && k2.arity() == k.arity() {
                    out.push(Ty::Range(k2, e.clone()));
                }
            }
        }
        _ => {}
    }
    // one level down
    match t {
        Ty::Vec(e) | Ty::BoxSlice(e) | Ty::Option(e) | Ty::Bound(e) | Ty::Array(e, _) => {
            for m in builtin_near_misses(u, e) {
                let cand = match t {
                    Ty::Vec(_) => Ty::vec(m),
                    Ty::BoxSlice(_) => Ty::bslice(m),
                    Ty::Option(_) => Ty::opt(m),
                    Ty::Array(_, n) => Ty::Array(Box::new(m), *n),
                    _ => Ty::bound(m),
                };
                out.push(cand);
            }
        }
        _ => {}
    }
    // zero-length arrays: the element type is still part of the type
    if let Ty::Array(e, _) = t {
        if t.array_len() > 0 {
            out.push(Ty::Array(e.clone(), CExpr::Lit(CVal::Usize(0))));
            for m in builtin_near_misses(u, e).into_iter().take(1) {
                out.push(Ty::Array(Box::new(m), CExpr::Lit(CVal::Usize(0))));
            }
        }
    }
    out.retain(|x| valid_closed(u, x) && !crate::gen::has_zst_block(u, x));
    out
}

impl<'a> Model<'a> {
    /// Type-level structural description: exactly the attributes listed by C04 (names, order, field types,
    /// generic arguments, const names and values, sequence kind, array length, tuple arity, copy kind).
    pub fn descr_type(&self, t: &Ty) -> String {
        let mut s = String::new();
        self.dt(t, &mut s);
        s
    }

    fn dt(&self, t: &Ty, s: &mut String) {
        match t {
            Ty::Prim(p) => s.push_str(p.rust()),
            Ty::Phantom(e) => {
                s.push_str("PhantomData<");
                self.dt(e, s);
                s.push('>');
            }
            Ty::String => s.push_str("String"),
            Ty::BoxStr => s.push_str("Box<str>"),
            Ty::RangeFull => s.push_str("RangeFull"),
            Ty::Vec(e) => {
                s.push_str("Vec<");
                self.dt(e, s);
                s.push('>');
            }
            Ty::BoxSlice(e) => {
                s.push_str("Box<[");
                self.dt(e, s);
                s.push_str("]>");
            }
            Ty::Array(e, _) => {
                s.push('[');
                self.dt(e, s);
                let _ = write!(s, ";{}]", t.array_len());
            }
            Ty::Tuple(e, n) => {
                let _ = write!(s, "tuple{}(", n);
                self.dt(e, s);
                s.push(')');
            }
            Ty::Option(e) => {
                s.push_str("Option<");
                self.dt(e, s);
                s.push('>');
            }
            Ty::Bound(e) => {
                s.push_str("Bound<");
                self.dt(e, s);
                s.push('>');
            }
            Ty::ControlFlow(b, c) => {
                s.push_str("ControlFlow<");
                self.dt(b, s);
                s.push(',');
                self.dt(c, s);
                s.push('>');
            }
            Ty::Range(k, e) => {
                s.push_str(k.rust());
                s.push('<');
                self.dt(e, s);
                s.push('>');
            }
            Ty::Adt(i, args) => {
                let d = &self.u.adts[*i];
                let _ = write!(s, "{}:{}:{}{{", if matches!(d.body, Body::Struct(_)) { "struct" } else { "enum" }, if d.is_zero() { "zero" } else { "deep" }, d.name);
                for (p, a) in d.params.iter().zip(args) {
                    if let (ParamDef::Const { name, .. }, Arg::Const(CExpr::Lit(c))) = (p, a) {
                        let _ = write!(s, "const {}={};", name, c.rust());
                    }
                }
                for var in 0..d.n_variants() {
                    if let Body::Enum(vs) = &d.body {
                        let _ = write!(s, "variant {}(", vs[var].0);
                    }
                    let f = d.variant_fields(var);
                    for (n, ft) in f.names().iter().zip(self.u.inst_fields(*i, args, var)) {
                        let _ = write!(s, "{}:", n);
                        self.dt(&ft, s);
                        s.push(',');
                    }
                    if matches!(d.body, Body::Enum(_)) {
                        s.push(')');
                    }
                }
                s.push('}');
            }
            Ty::Param(_) => panic!(),
        }
    }

    /// Layout-level description: representation attributes, size and field offsets of every zero-copy
    /// aggregate whose memory representation ends up in the stream.
    pub fn descr_layout(&self, t: &Ty) -> String {
        let mut s = String::new();
        self.dl(t, &mut s);
        s
    }

    fn dl(&self, t: &Ty, s: &mut String) {
        match t {
            Ty::Prim(_) | Ty::Phantom(_) | Ty::String | Ty::BoxStr | Ty::RangeFull | Ty::Range(..) => {}
            // no value of the element type is ever stored in a zero-length array (like PhantomData): its
            // memory layout cannot be observed in any stream, and the published alignment hash skips it
            Ty::Array(_, _) if t.array_len() == 0 => {}
            Ty::Vec(e) | Ty::BoxSlice(e) | Ty::Array(e, _) | Ty::Tuple(e, _) | Ty::Option(e) | Ty::Bound(e) => self.dl(e, s),
            Ty::ControlFlow(b, c) => {
                self.dl(b, s);
                self.dl(c, s);
            }
            Ty::Adt(i, args) => {
                let d = &self.u.adts[*i];
                if d.is_zero() {
                    let k = crate::render::ty(self.u, t);
                    let l = self.layouts.0.get(&k);
                    let _ = write!(s, "[{}|{:?}|{:?}]", d.reprs.join(","), l.map(|l| l.size), l.map(|l| l.offsets.clone()));
                }
                for var in 0..d.n_variants() {
                    for f in self.u.inst_fields(*i, args, var) {
                        self.dl(&f, s);
                    }
                }
            }
            Ty::Param(_) => panic!(),
        }
    }

    /// Whether a layout-only difference between `t` and another type could sit below a constructor whose
    /// alignment hash does not recurse (`Bound`): the O9 class.
    pub fn has_zero_adt_under_bound(&self, t: &Ty) -> bool {
        fn has_zero_adt(m: &Model, t: &Ty) -> bool {
            match t {
                Ty::Adt(i, _) if m.u.adts[*i].is_zero() => true,
                Ty::Phantom(_) => false,
                _ => m.u.components(t).iter().any(|c| has_zero_adt(m, c)),
            }
        }
        match t {
            Ty::Bound(e) => has_zero_adt(self, e),
            Ty::Phantom(_) => false,
            _ => self.u.components(t).iter().any(|c| self.has_zero_adt_under_bound(c)),
        }
    }
}

/// Instantiations that differ from `t` only in the value of one const generic argument of its outermost
/// user type (valid closed types only).
pub fn const_value_variants(u: &Universe, t: &Ty) -> Vec<Ty> {
    let Ty::Adt(i, args) = t else { return vec![] };
    let mut out = vec![];
    for (k, a) in args.iter().enumerate() {
        if let Arg::Const(CExpr::Lit(c)) = a {
            let alt = match c {
                CVal::Usize(n) => CVal::Usize(if *n >= 4 { n - 1 } else { n + 1 }),
                CVal::Bool(b) => CVal::Bool(!b),
                CVal::Char(ch) => CVal::Char(if *ch == 'a' { 'b' } else { 'a' }),
                CVal::I8(x) => CVal::I8(x.wrapping_add(1)),
            };
            let mut a2 = args.clone();
            a2[k] = Arg::Const(CExpr::Lit(alt));
            let cand = Ty::Adt(*i, a2);
            if valid_closed(u, &cand) && !crate::gen::has_zst_block(u, &cand) {
                out.push(cand);
            }
        }
    }
    out
}
