//! Independent reference model of the ε-serde 1.1 stream format: encoder, type/alignment
//! hashes, alignment units and the documented ε-copy substitution.
//!
//! Nothing here calls into the crate under test. The only inputs taken from the compiler are
//! the layouts (size, alignment, field offsets) of `repr(C)` aggregates and tuples, which the
//! generated subject program reports through `offset_of!`/`size_of`/`align_of`.

use crate::ty::*;
use crate::val::*;
use serde::{Deserialize, Serialize};
use std::collections::BTreeMap;

#[derive(Clone, Debug, Default, PartialEq, Eq, Serialize, Deserialize)]
pub struct TyLayout {
    pub size: usize,
    pub align: usize,
    /// offsets of struct fields / tuple elements; empty for enums
    pub offsets: Vec<usize>,
}

/// Layouts reported by the compiler for zero-copy aggregates, keyed by the rendered type.
#[derive(Clone, Debug, Default, PartialEq, Eq, Serialize, Deserialize)]
pub struct Layouts(pub BTreeMap<String, TyLayout>);

pub const MAGIC: &[u8; 8] = b"epserde ";
pub const VERSION_MAJOR: u16 = 1;
pub const VERSION_MINOR: u16 = 1;
pub const USIZE: usize = core::mem::size_of::<usize>();
/// length of the fixed part of the header: cookie 8, major 2, minor 2, width 1, two hashes 8+8
pub const FIXED_HEADER: usize = 29;

pub struct Model<'a> {
    pub u: &'a Universe,
    pub layouts: &'a Layouts,
}

#[derive(Clone, Debug, PartialEq, Eq, Serialize, Deserialize)]
pub enum BlockKind {
    Slice,
    Str,
    Array,
    Tuple,
    Adt,
    Range,
}

#[derive(Clone, Debug, PartialEq, Eq, Serialize, Deserialize)]
pub struct Block {
    /// position where padding starts
    pub pad_start: usize,
    /// position of the first byte of the raw data
    pub pos: usize,
    /// byte length of the raw data
    pub len: usize,
    /// alignment unit the model assigns to the block's type
    pub unit: usize,
    /// native alignment of the element / aggregate type
    pub align: usize,
    /// whether ε-copy deserialization returns this block as a borrow (position is ε-deserialized)
    pub borrowed: bool,
    pub kind: BlockKind,
    /// rendered type of the element (Slice/Str) or of the aggregate
    pub ty: String,
}

#[derive(Clone, Debug, PartialEq, Eq, Serialize, Deserialize)]
pub struct TagSite {
    pub pos: usize,
    /// 1 (built-in sums) or pointer width (derived enums)
    pub width: usize,
    /// number of valid tags: valid tags are 0..n
    pub n_valid: usize,
    pub value: usize,
    pub kind: String,
}

#[derive(Clone, Debug, Default, PartialEq, Eq)]
pub struct Encoded {
    pub bytes: Vec<u8>,
    /// true = the byte is determined by the format (compare); false = compiler padding inside a block
    pub mask: Vec<bool>,
    pub header_len: usize,
    pub blocks: Vec<Block>,
    pub tags: Vec<TagSite>,
    /// positions of length prefixes
    pub lens: Vec<(usize, usize)>,
    /// positions at which a field/element/prefix starts (used to choose interesting cut points)
    pub boundaries: Vec<usize>,
}

impl Encoded {
    fn push(&mut self, b: &[u8]) {
        self.bytes.extend_from_slice(b);
        self.mask.extend(std::iter::repeat(true).take(b.len()));
    }
    fn pos(&self) -> usize {
        self.bytes.len()
    }
    /// number of blocks the ε-copy result borrows
    pub fn n_borrowed(&self) -> usize {
        self.blocks.iter().filter(|b| b.borrowed).count()
    }
    pub fn same_unmasked(&self, other: &[u8]) -> Option<usize> {
        if other.len() != self.bytes.len() {
            return Some(self.bytes.len().min(other.len()));
        }
        (0..other.len()).find(|&i| self.mask[i] && self.bytes[i] != other[i])
    }
}

pub fn pad_to(pos: usize, unit: usize) -> usize {
    // least d >= 0 with (pos + d) % unit == 0; unit 0 is the model's "no alignment" (d = 0)
    if unit == 0 {
        0
    } else {
        (unit - pos % unit) % unit
    }
}

impl<'a> Model<'a> {
    pub fn new(u: &'a Universe, layouts: &'a Layouts) -> Self {
        Model { u, layouts }
    }

    fn lay(&self, t: &Ty) -> &TyLayout {
        let k = crate::render::ty(self.u, t);
        self.layouts.0.get(&k).unwrap_or_else(|| panic!("no layout reported for {}", k))
    }

    pub fn size_of(&self, t: &Ty) -> usize {
        match t {
            Ty::Prim(p) => p.size(),
            Ty::Phantom(_) | Ty::RangeFull => 0,
            Ty::Array(e, _) => self.size_of(e) * t.array_len(),
            Ty::Range(k, e) => match k {
                RangeKind::RangeTo | RangeKind::RangeToInclusive | RangeKind::RangeFrom => self.size_of(e),
                RangeKind::Range => 2 * self.size_of(e),
                RangeKind::RangeInclusive => {
                    let a = self.align_of(e);
                    let raw = 2 * self.size_of(e) + 1;
                    raw + pad_to(raw, a)
                }
            },
            _ => self.lay(t).size,
        }
    }

    pub fn align_of(&self, t: &Ty) -> usize {
        match t {
            Ty::Prim(p) => p.align(),
            Ty::Phantom(_) | Ty::RangeFull => 1,
            Ty::Array(e, _) | Ty::Range(_, e) => self.align_of(e),
            _ => self.lay(t).align,
        }
    }

    /// The alignment unit of a zero-copy type as the documentation defines it: the largest
    /// primitive size inside it, maximised with the native alignment for user aggregates.
    pub fn unit(&self, t: &Ty) -> usize {
        match t {
            // maximised with the native alignment: zero-sized types have unit 1
            Ty::Prim(p) => p.size().max(p.align()),
            Ty::Phantom(_) | Ty::RangeFull => 1,
            Ty::Array(e, _) | Ty::Tuple(e, _) => self.unit(e),
            Ty::Range(..) => self.size_of(t),
            Ty::Adt(i, args) => {
                let mut m = self.align_of(t);
                for var in 0..self.u.adts[*i].n_variants() {
                    for f in self.u.inst_fields(*i, args, var) {
                        m = m.max(self.unit(&f));
                    }
                }
                m
            }
            _ => panic!("unit on deep type {:?}", t),
        }
    }

    // ------------------------------------------------------------------ memory representation

    /// In-memory representation of a zero-copy value, with a mask of the bytes that are determined.
    pub fn mem(&self, t: &Ty, v: &Val, out: &mut Vec<u8>, mask: &mut Vec<bool>) {
        let base = out.len();
        let size = self.size_of(t);
        out.resize(base + size, 0);
        mask.resize(base + size, false);
        self.mem_at(t, v, base, out, mask);
    }

    fn mem_at(&self, t: &Ty, v: &Val, at: usize, out: &mut [u8], mask: &mut [bool]) {
        match t {
            Ty::Prim(Prim::Unit) | Ty::Phantom(_) | Ty::RangeFull => {}
            Ty::Prim(_) => {
                let b = v.bytes();
                out[at..at + b.len()].copy_from_slice(b);
                for m in &mut mask[at..at + b.len()] {
                    *m = true;
                }
            }
            Ty::Array(e, _) => {
                let s = self.size_of(e);
                for (i, x) in v.seq().iter().enumerate() {
                    self.mem_at(e, x, at + i * s, out, mask);
                }
            }
            Ty::Tuple(e, _) => {
                let l = self.lay(t).clone();
                for (i, x) in v.seq().iter().enumerate() {
                    self.mem_at(e, x, at + l.offsets[i], out, mask);
                }
            }
            Ty::Range(k, e) => {
                assert!(k.is_copy(), "non-Copy range in a memory block");
                self.mem_at(e, &v.seq()[0], at, out, mask);
            }
            Ty::Adt(i, args) => {
                let def = &self.u.adts[*i];
                let l = self.lay(t).clone();
                match &def.body {
                    Body::Struct(_) => {
                        for (k, (ft, fv)) in self.u.inst_fields(*i, args, 0).iter().zip(v.seq()).enumerate() {
                            self.mem_at(ft, fv, at + l.offsets[k], out, mask);
                        }
                    }
                    Body::Enum(_) => {
                        // repr(C) enum: C `int` discriminant first; payload layout is left masked.
                        let (k, _) = v.var();
                        if l.size >= 4 {
                            out[at..at + 4].copy_from_slice(&(k as u32).to_ne_bytes());
                            for m in &mut mask[at..at + 4] {
                                *m = true;
                            }
                        }
                    }
                }
            }
            _ => panic!("mem on deep type {:?}", t),
        }
    }

    // ------------------------------------------------------------------ stream encoding

    pub fn header(&self, t: &Ty, type_name: &str) -> Encoded {
        let mut e = Encoded::default();
        e.push(MAGIC);
        e.push(&VERSION_MAJOR.to_ne_bytes());
        e.push(&VERSION_MINOR.to_ne_bytes());
        e.push(&[USIZE as u8]);
        e.push(&self.type_hash(t).to_ne_bytes());
        e.push(&self.align_hash(t).to_ne_bytes());
        e.push(&type_name.len().to_ne_bytes());
        e.push(type_name.as_bytes());
        e.header_len = e.pos();
        e
    }

    /// Full stream for a value of the closed type `t`.
    pub fn encode(&self, t: &Ty, v: &Val, type_name: &str) -> Encoded {
        let mut e = self.header(t, type_name);
        self.enc(t, v, true, &mut e);
        e
    }

    fn block(&self, e: &mut Encoded, unit: usize, align: usize, borrowed: bool, kind: BlockKind, ty: String, data: (Vec<u8>, Vec<bool>)) {
        let pad_start = e.pos();
        let pad = pad_to(pad_start, unit);
        e.push(&vec![0u8; pad]);
        let pos = e.pos();
        e.bytes.extend_from_slice(&data.0);
        e.mask.extend_from_slice(&data.1);
        e.blocks.push(Block { pad_start, pos, len: data.0.len(), unit, align, borrowed, kind, ty });
    }

    fn zero_block(&self, t: &Ty, v: &Val, eps: bool, kind: BlockKind, e: &mut Encoded) {
        let mut d = (vec![], vec![]);
        self.mem(t, v, &mut d.0, &mut d.1);
        self.block(e, self.unit(t), self.align_of(t), eps, kind, crate::render::ty(self.u, t), d);
    }

    /// `eps`: whether this position is ε-copy deserialized (as opposed to fully copied) when the
    /// stream is read with `deserialize_eps`.
    fn enc(&self, t: &Ty, v: &Val, eps: bool, e: &mut Encoded) {
        e.boundaries.push(e.pos());
        match t {
            Ty::Prim(Prim::Unit) | Ty::Phantom(_) | Ty::RangeFull => {}
            Ty::Prim(_) => e.push(v.bytes()),
            Ty::String | Ty::BoxStr => {
                let s = v.str().as_bytes();
                e.lens.push((e.pos(), s.len()));
                e.push(&s.len().to_ne_bytes());
                self.block(e, 1, 1, eps, BlockKind::Str, "u8".into(), (s.to_vec(), vec![true; s.len()]));
            }
            Ty::Vec(el) | Ty::BoxSlice(el) => {
                let xs = v.seq();
                e.lens.push((e.pos(), xs.len()));
                e.push(&xs.len().to_ne_bytes());
                if self.u.is_zero(el) {
                    let mut d = (vec![], vec![]);
                    for x in xs {
                        self.mem(el, x, &mut d.0, &mut d.1);
                    }
                    self.block(e, self.unit(el), self.align_of(el), eps, BlockKind::Slice, crate::render::ty(self.u, el), d);
                } else {
                    for x in xs {
                        self.enc(el, x, eps, e);
                    }
                }
            }
            Ty::Array(el, _) => {
                if self.u.is_zero(el) {
                    self.zero_block(t, v, eps, BlockKind::Array, e);
                } else {
                    for x in v.seq() {
                        self.enc(el, x, eps, e);
                    }
                }
            }
            Ty::Tuple(..) => self.zero_block(t, v, eps, BlockKind::Tuple, e),
            Ty::Option(el) | Ty::Bound(el) => {
                let (k, f) = v.var();
                let n_valid = if matches!(t, Ty::Option(_)) { 2 } else { 3 };
                e.tags.push(TagSite { pos: e.pos(), width: 1, n_valid, value: k, kind: if n_valid == 2 { "Option".into() } else { "Bound".into() } });
                e.push(&[k as u8]);
                if k > 0 {
                    self.enc(el, &f[0], eps, e);
                }
            }
            Ty::ControlFlow(b, c) => {
                let (k, f) = v.var();
                e.tags.push(TagSite { pos: e.pos(), width: 1, n_valid: 2, value: k, kind: "ControlFlow".into() });
                e.push(&[k as u8]);
                self.enc(if k == 0 { b } else { c }, &f[0], eps, e);
            }
            Ty::Range(k, idx) => {
                // written field by field: start, end, (exhausted flag for inclusive ranges)
                for x in v.seq() {
                    self.enc(idx, x, eps, e);
                }
                if *k == RangeKind::RangeInclusive {
                    e.push(&[0u8]);
                }
            }
            Ty::Adt(i, args) => {
                let def = &self.u.adts[*i];
                if def.is_zero() {
                    self.zero_block(t, v, eps, BlockKind::Adt, e);
                } else {
                    let (var, fields): (usize, &[Val]) = match &def.body {
                        Body::Struct(_) => (0, v.seq()),
                        Body::Enum(vs) => {
                            let (k, f) = v.var();
                            e.tags.push(TagSite { pos: e.pos(), width: USIZE, n_valid: vs.len(), value: k, kind: format!("enum {}", def.name) });
                            e.push(&k.to_ne_bytes());
                            (k, f)
                        }
                    };
                    let decl = def.variant_fields(var).types();
                    for ((ft, fv), d) in self.u.inst_fields(*i, args, var).iter().zip(fields).zip(decl) {
                        // a field is ε-copied only when its declared type is exactly a type parameter
                        let feps = eps && matches!(d, Ty::Param(_));
                        self.enc(ft, fv, feps, e);
                    }
                }
            }
            Ty::Param(_) => panic!("encode of open type"),
        }
    }

    // ------------------------------------------------------------------ metamorphic scaling

    /// Multiply by `k` the length of every sequence that an ε-copy deserialization returns as a
    /// borrowed slice (content repeated), leaving everything that is copied untouched.
    pub fn scale(&self, t: &Ty, v: &Val, k: usize) -> Val {
        self.scale_at(t, v, k, true)
    }

    fn scale_at(&self, t: &Ty, v: &Val, k: usize, eps: bool) -> Val {
        match t {
            Ty::Prim(_) | Ty::Phantom(_) | Ty::RangeFull | Ty::Range(..) | Ty::Tuple(..) => v.clone(),
            Ty::String | Ty::BoxStr => {
                if eps {
                    Val::Str(v.str().repeat(k))
                } else {
                    v.clone()
                }
            }
            Ty::Vec(e) | Ty::BoxSlice(e) => {
                if self.u.is_zero(e) {
                    if eps {
                        let xs = v.seq();
                        let mut out = Vec::with_capacity(xs.len() * k);
                        for _ in 0..k {
                            out.extend(xs.iter().cloned());
                        }
                        Val::Seq(out)
                    } else {
                        v.clone()
                    }
                } else {
                    Val::Seq(v.seq().iter().map(|x| self.scale_at(e, x, k, eps)).collect())
                }
            }
            Ty::Array(e, _) => {
                if self.u.is_zero(e) {
                    v.clone()
                } else {
                    Val::Seq(v.seq().iter().map(|x| self.scale_at(e, x, k, eps)).collect())
                }
            }
            Ty::Option(e) | Ty::Bound(e) => {
                let (i, f) = v.var();
                Val::Var(i, f.iter().map(|x| self.scale_at(e, x, k, eps)).collect())
            }
            Ty::ControlFlow(b, c) => {
                let (i, f) = v.var();
                Val::Var(i, vec![self.scale_at(if i == 0 { b } else { c }, &f[0], k, eps)])
            }
            Ty::Adt(i, args) => {
                let def = &self.u.adts[*i];
                if def.is_zero() {
                    return v.clone();
                }
                let (var, fields): (usize, &[Val]) = match &def.body {
                    Body::Struct(_) => (0, v.seq()),
                    Body::Enum(_) => v.var(),
                };
                let decl = def.variant_fields(var).types();
                let out: Vec<Val> = self
                    .u
                    .inst_fields(*i, args, var)
                    .iter()
                    .zip(fields)
                    .zip(decl)
                    .map(|((ft, fv), d)| self.scale_at(ft, fv, k, eps && matches!(d, Ty::Param(_))))
                    .collect();
                match &def.body {
                    Body::Struct(_) => Val::Rec(out),
                    Body::Enum(_) => Val::Var(var, out),
                }
            }
            Ty::Param(_) => panic!(),
        }
    }

    // ------------------------------------------------------------------ ε-copy substitution

    /// The documented ε-copy type of a closed type, rendered as Rust with lifetime `'a`.
    pub fn deser_ty(&self, t: &Ty) -> String {
        let r = |t: &Ty| crate::render::ty(self.u, t);
        match t {
            Ty::Prim(_) | Ty::Phantom(_) | Ty::RangeFull => r(t),
            Ty::String | Ty::BoxStr => "&'a str".into(),
            Ty::Vec(e) => {
                if self.u.is_zero(e) {
                    format!("&'a [{}]", r(e))
                } else {
                    format!("Vec<{}>", self.deser_ty(e))
                }
            }
            Ty::BoxSlice(e) => {
                if self.u.is_zero(e) {
                    format!("&'a [{}]", r(e))
                } else {
                    format!("Box<[{}]>", self.deser_ty(e))
                }
            }
            Ty::Array(e, _) => {
                if self.u.is_zero(e) {
                    format!("&'a {}", r(t))
                } else {
                    format!("[{}; {}]", self.deser_ty(e), t.array_len())
                }
            }
            Ty::Tuple(..) => format!("&'a {}", r(t)),
            Ty::Option(e) => format!("Option<{}>", self.deser_ty(e)),
            Ty::Bound(e) => format!("core::ops::Bound<{}>", self.deser_ty(e)),
            Ty::ControlFlow(b, c) => format!("core::ops::ControlFlow<{}, {}>", self.deser_ty(b), self.deser_ty(c)),
            Ty::Range(k, e) => format!("core::ops::{}<{}>", k.rust(), self.deser_ty(e)),
            Ty::Adt(i, args) => {
                let def = &self.u.adts[*i];
                if def.is_zero() {
                    format!("&'a {}", r(t))
                } else {
                    let a: Vec<String> = args
                        .iter()
                        .enumerate()
                        .map(|(k, a)| match a {
                            Arg::Ty(t) => {
                                if def.is_field_param(k) {
                                    self.deser_ty(t)
                                } else {
                                    r(t)
                                }
                            }
                            Arg::Const(CExpr::Lit(c)) => c.rust(),
                            Arg::Const(_) => panic!(),
                        })
                        .collect();
                    crate::render::adt_path(self.u, *i, &a)
                }
            }
            Ty::Param(_) => panic!(),
        }
    }

    // ------------------------------------------------------------------ hashes

    pub fn type_hash(&self, t: &Ty) -> u64 {
        let mut h = Vec::new();
        self.th(t, &mut h);
        xxhash_rust::xxh3::xxh3_64(&h)
    }

    pub fn align_hash(&self, t: &Ty) -> u64 {
        let mut h = Vec::new();
        let mut off = 0usize;
        self.ah(t, &mut h, &mut off);
        xxhash_rust::xxh3::xxh3_64(&h)
    }

    /// The byte strings fed to the hash (exposed for the structural description used by C04).
    pub fn type_hash_input(&self, t: &Ty) -> Vec<u8> {
        let mut h = Vec::new();
        self.th(t, &mut h);
        h
    }
    pub fn align_hash_input(&self, t: &Ty) -> Vec<u8> {
        let mut h = Vec::new();
        let mut off = 0usize;
        self.ah(t, &mut h, &mut off);
        h
    }

    fn th(&self, t: &Ty, h: &mut Vec<u8>) {
        match t {
            Ty::Prim(p) => hs(h, p.rust()),
            Ty::Phantom(e) => {
                hs(h, "PhantomData");
                self.th(e, h);
            }
            Ty::String => hs(h, "String"),
            Ty::BoxStr => hs(h, "Box<str>"),
            Ty::Vec(e) => {
                hs(h, "Vec");
                self.th(e, h);
            }
            Ty::BoxSlice(e) => {
                hs(h, "Box<[]>");
                self.th(e, h);
            }
            Ty::Array(e, _) => {
                hs(h, "[]");
                hu(h, t.array_len());
                self.th(e, h);
            }
            Ty::Tuple(e, n) => {
                hs(h, "()");
                for _ in 0..*n {
                    self.th(e, h);
                }
            }
            Ty::Option(e) => {
                hs(h, "Option");
                self.th(e, h);
            }
            Ty::Bound(e) => {
                hs(h, "core::ops::Bound");
                self.th(e, h);
            }
            Ty::ControlFlow(b, c) => {
                hs(h, "core::ops::ControlFlow");
                self.th(b, h);
                self.th(c, h);
            }
            Ty::Range(k, e) => {
                // `stringify!(core::ops::$ty)` inside the crate's macro yields spaced tokens: part of the published recipe
                hs(h, &format!("core :: ops :: {}", k.rust()));
                self.th(e, h);
            }
            Ty::RangeFull => hs(h, "core::ops::RangeFull"),
            Ty::Adt(i, args) => {
                let def = &self.u.adts[*i];
                hs(h, if def.is_zero() { "ZeroCopy" } else { "DeepCopy" });
                // values of const parameters, then their names
                for a in args {
                    if let Arg::Const(CExpr::Lit(c)) = a {
                        match c {
                            CVal::Usize(n) => hu(h, *n as usize),
                            CVal::Bool(b) => h.push(*b as u8),
                            CVal::Char(c) => h.extend_from_slice(&(*c as u32).to_ne_bytes()),
                            CVal::I8(x) => h.push(*x as u8),
                        }
                    }
                }
                for p in &def.params {
                    if let ParamDef::Const { name, .. } = p {
                        hs(h, name);
                    }
                }
                hs(h, def.hashed_name());
                match &def.body {
                    Body::Struct(f) => {
                        for n in f.names() {
                            hs(h, &n);
                        }
                        for ft in self.u.inst_fields(*i, args, 0) {
                            self.th(&ft, h);
                        }
                    }
                    Body::Enum(vs) => {
                        for (k, (vn, f)) in vs.iter().enumerate() {
                            hs(h, crate::ty::vident(vn));
                            for (n, ft) in f.names().iter().zip(self.u.inst_fields(*i, args, k)) {
                                hs(h, n);
                                self.th(&ft, h);
                            }
                        }
                    }
                }
            }
            Ty::Param(_) => panic!(),
        }
    }

    fn std_ah(&self, t: &Ty, h: &mut Vec<u8>, off: &mut usize) {
        let pad = pad_to(*off, self.align_of(t));
        hu(h, pad);
        hu(h, self.size_of(t));
        *off += pad + self.size_of(t);
    }

    fn ah(&self, t: &Ty, h: &mut Vec<u8>, off: &mut usize) {
        match t {
            Ty::Prim(_) => self.std_ah(t, h, off),
            Ty::Phantom(_) | Ty::String | Ty::BoxStr | Ty::RangeFull | Ty::Bound(_) => {}
            Ty::Vec(e) | Ty::BoxSlice(e) | Ty::Option(e) => self.ah(e, h, &mut 0),
            Ty::Array(e, _) => {
                let n = t.array_len();
                if n == 0 {
                    return;
                }
                self.ah(e, h, off);
                // `size_of` of deep element types is the compiler-reported Rust size
                *off += (n - 1) * self.size_of(e);
            }
            Ty::Tuple(e, n) => {
                for _ in 0..*n {
                    self.ah(e, h, off);
                }
            }
            Ty::ControlFlow(b, c) => {
                self.ah(b, h, &mut 0);
                self.ah(c, h, &mut 0);
            }
            Ty::Range(_, e) => {
                self.std_ah(e, h, off);
                self.std_ah(e, h, off);
            }
            Ty::Adt(i, args) => {
                let def = &self.u.adts[*i];
                if def.is_zero() {
                    hu(h, self.size_of(t));
                    for r in &def.reprs {
                        hs(h, r);
                    }
                    let old = *off;
                    for var in 0..def.n_variants() {
                        if matches!(def.body, Body::Enum(_)) {
                            *off = old;
                        }
                        for ft in self.u.inst_fields(*i, args, var) {
                            self.ah(&ft, h, off);
                        }
                    }
                } else {
                    match &def.body {
                        Body::Struct(_) => {
                            for ft in self.u.inst_fields(*i, args, 0) {
                                self.ah(&ft, h, &mut 0);
                            }
                        }
                        Body::Enum(vs) => {
                            for var in 0..vs.len() {
                                *off = 0;
                                for ft in self.u.inst_fields(*i, args, var) {
                                    self.ah(&ft, h, off);
                                }
                            }
                        }
                    }
                }
            }
            Ty::Param(_) => panic!(),
        }
    }

}

fn hs(h: &mut Vec<u8>, s: &str) {
    h.extend_from_slice(s.as_bytes());
    h.push(0xff);
}
fn hu(h: &mut Vec<u8>, n: usize) {
    h.extend_from_slice(&n.to_ne_bytes());
}
