//! Generators of universes (definitions + subjects).
//!
//! All randomness comes from a vector of 32-bit choices produced by a proptest strategy; the
//! decoder below turns choices into definitions (Hypothesis style), so shrinking the vector
//! shrinks the program: an exhausted source yields the first (simplest) alternative everywhere.

use crate::ty::*;
use proptest::prelude::*;

pub struct Src<'a> {
    data: &'a [u32],
    pos: usize,
}

impl<'a> Src<'a> {
    pub fn new(data: &'a [u32]) -> Self {
        Src { data, pos: 0 }
    }
    fn next(&mut self) -> u32 {
        let v = self.data.get(self.pos).copied().unwrap_or(0);
        self.pos += 1;
        v
    }
    /// monotone map of a choice onto 0..n
    pub fn pick(&mut self, n: usize) -> usize {
        if n <= 1 {
            return 0;
        }
        ((self.next() as u64 * n as u64) >> 32) as usize
    }
    /// true with probability num/den
    pub fn chance(&mut self, num: usize, den: usize) -> bool {
        self.pick(den) >= den - num
    }
    pub fn of<T: Clone>(&mut self, xs: &[T]) -> T {
        xs[self.pick(xs.len())].clone()
    }
    pub fn exhausted(&self) -> bool {
        self.pos >= self.data.len()
    }
}

/// Strategy for the raw choice vector.
pub fn choices(n: usize) -> impl Strategy<Value = Vec<u32>> {
    prop::collection::vec(any::<u32>(), n..=n)
}

#[derive(Clone, Copy, Debug)]
pub struct UniCfg {
    pub n_adts: usize,
    pub n_builtin_subjects: usize,
    pub max_depth: usize,
    /// allow zero-sized zero-copy data in sequences / ε positions (the O3/O4 class)
    pub allow_zst_blocks: bool,
    /// allow `ControlFlow` (O1 class)
    pub allow_control_flow: bool,
}

impl Default for UniCfg {
    fn default() -> Self {
        UniCfg { n_adts: 40, n_builtin_subjects: 40, max_depth: 4, allow_zst_blocks: true, allow_control_flow: true }
    }
}

/// What a closed type is wanted for.
#[derive(Clone, Copy, Debug, PartialEq, Eq)]
pub enum Want {
    Any,
    /// usable as an element of a zero-copy sequence / a field of a zero-copy aggregate
    ZeroElem,
    /// a deep-copy type (usable under `C: DeepCopy`)
    Deep,
    /// a type whose ε-copy type is itself and that is zero-copy (argument of a zero-copy generic)
    SelfDeserZero,
}

pub const IDX_PRIMS: [Prim; 13] =
    [Prim::U8, Prim::U16, Prim::U32, Prim::U64, Prim::U128, Prim::Usize, Prim::I8, Prim::I16, Prim::I32, Prim::I64, Prim::Isize, Prim::F64, Prim::Char];

pub struct Gen<'a, 'b> {
    pub src: Src<'a>,
    pub cfg: UniCfg,
    pub u: &'b mut Universe,
    pub excluded_zst: usize,
}

fn sized_prims() -> Vec<Prim> {
    ALL_PRIMS.iter().copied().filter(|p| *p != Prim::Unit).collect()
}

impl<'a, 'b> Gen<'a, 'b> {
    /// Whether blocks of this zero-copy type have alignment unit 0 or size 0 (O3/O4 class).
    pub fn is_zst_like(&self, t: &Ty) -> bool {
        zst_like(self.u, t)
    }

    fn prim(&mut self, allow_unit: bool) -> Ty {
        if allow_unit && self.src.chance(1, 24) {
            return Ty::Prim(Prim::Unit);
        }
        Ty::Prim(self.src.of(&sized_prims()))
    }

    fn zero_adts(&self) -> Vec<usize> {
        (0..self.u.adts.len()).filter(|i| self.u.adts[*i].is_zero() && self.u.adts[*i].mutant_of.is_none()).collect()
    }
    fn deep_adts(&self) -> Vec<usize> {
        (0..self.u.adts.len()).filter(|i| !self.u.adts[*i].is_zero() && self.u.adts[*i].mutant_of.is_none()).collect()
    }

    /// Arguments for a closed instantiation of definition `i`.
    pub fn inst_args(&mut self, i: usize, depth: usize) -> Vec<Arg> {
        let def = self.u.adts[i].clone();
        let mut args = vec![];
        for (k, p) in def.params.iter().enumerate() {
            match p {
                ParamDef::Const { cty, default, .. } => {
                    let v = if default.is_some() && self.src.chance(1, 3) {
                        default.unwrap()
                    } else {
                        match cty {
                            CTy::Usize => CVal::Usize(if self.cfg.allow_zst_blocks { self.src.pick(5) as u64 } else { 1 + self.src.pick(4) as u64 }),
                            CTy::Bool => CVal::Bool(self.src.pick(2) == 1),
                            CTy::Char => CVal::Char(self.src.of(&['a', 'Z', 'ε', '\u{10ffff}'])),
                            CTy::I8 => CVal::I8(self.src.of(&[0i8, 1, -1, 127, -128])),
                        }
                    };
                    args.push(Arg::Const(CExpr::Lit(v)));
                }
                ParamDef::Type { bounds, default, .. } => {
                    if let Some(d) = default {
                        if self.src.chance(1, 3) {
                            args.push(Arg::Ty(d.clone()));
                            continue;
                        }
                    }
                    let want = self.want_for_param(&def, k, bounds);
                    args.push(Arg::Ty(self.closed(depth + 1, want)));
                }
            }
        }
        args
    }

    fn want_for_param(&self, def: &AdtDef, _k: usize, bounds: &[String]) -> Want {
        if def.is_zero() {
            Want::SelfDeserZero
        } else if bounds.iter().any(|b| b.ends_with("ZeroCopy")) {
            Want::ZeroElem
        } else if bounds.iter().any(|b| b.ends_with("DeepCopy")) {
            Want::Deep
        } else {
            Want::Any
        }
    }

    /// A closed type.
    pub fn closed(&mut self, depth: usize, want: Want) -> Ty {
        let leaf = depth >= self.cfg.max_depth;
        match want {
            // argument of a type parameter of a zero-copy aggregate: any zero-copy element type
            Want::SelfDeserZero => {
                if self.src.chance(1, 2) {
                    self.prim(true)
                } else {
                    let t = self.zero_elem(depth.max(self.cfg.max_depth - 1), false);
                    if !self.cfg.allow_zst_blocks && self.is_zst_like(&t) {
                        self.prim(false)
                    } else {
                        t
                    }
                }
            }
            Want::ZeroElem => {
                let t = self.zero_elem(depth, leaf);
                if !self.cfg.allow_zst_blocks && self.is_zst_like(&t) {
                    self.excluded_zst += 1;
                    return self.prim(false);
                }
                t
            }
            Want::Deep => self.deep(depth, leaf),
            Want::Any => {
                if leaf || self.src.chance(2, 5) {
                    self.zero_any(depth, leaf)
                } else {
                    self.deep(depth, leaf)
                }
            }
        }
    }

    /// zero-copy type usable anywhere (includes non-Copy ranges, which are only valid at deep positions)
    fn zero_any(&mut self, depth: usize, leaf: bool) -> Ty {
        if self.src.chance(1, 6) {
            let k = self.src.of(&RangeKind::ALL);
            let idx = self.src.of(&IDX_PRIMS);
            return Ty::range(k, Ty::Prim(idx));
        }
        self.zero_elem(depth, leaf)
    }

    fn zero_elem(&mut self, depth: usize, leaf: bool) -> Ty {
        let t = self.zero_elem_raw(depth, leaf);
        if est_size(self.u, &t) > MAX_ZERO_SIZE {
            return self.prim(false);
        }
        t
    }

    fn zero_elem_raw(&mut self, depth: usize, leaf: bool) -> Ty {
        let n = if leaf { 1 } else { 8 };
        match self.src.pick(n) {
            0 => self.prim(true),
            1 => self.prim(false),
            2 => {
                let e = self.zero_elem_nz(depth + 1);
                let len = if self.cfg.allow_zst_blocks { self.src.pick(5) } else { 1 + self.src.pick(4) };
                Ty::arr(e, len)
            }
            3 => {
                let e = self.zero_elem_nz(depth + 1);
                let big = self.src.chance(1, 8);
                let ar = 1 + self.src.pick(if big { 12 } else { 4 });
                Ty::tup(e, ar)
            }
            4 => {
                let k = self.src.of(&[RangeKind::RangeTo, RangeKind::RangeToInclusive]);
                if self.src.chance(1, 4) {
                    // a composite index of power-of-two size: the unit of the range (its size) exceeds its alignment
                    let p = Ty::Prim(self.src.of(&[Prim::U8, Prim::U16, Prim::U32, Prim::I16]));
                    let idx = if self.src.chance(1, 2) { Ty::tup(p, 2) } else { Ty::arr(p, self.src.of(&[2usize, 4])) };
                    Ty::range(k, idx)
                } else {
                    Ty::range(k, Ty::Prim(self.src.of(&IDX_PRIMS)))
                }
            }
            5 => {
                if self.src.chance(1, 2) {
                    Ty::RangeFull
                } else {
                    let inner = self.closed(self.cfg.max_depth, Want::Any);
                    Ty::phantom(inner)
                }
            }
            _ => {
                let zs = self.zero_adts();
                if zs.is_empty() {
                    return self.prim(false);
                }
                let i = self.src.of(&zs);
                let args = self.inst_args(i, depth);
                Ty::adt(i, args)
            }
        }
    }

    /// zero-copy element that is not in the O3/O4 class unless allowed
    fn zero_elem_nz(&mut self, depth: usize) -> Ty {
        let leaf = depth >= self.cfg.max_depth;
        let t = self.zero_elem(depth, leaf);
        if !self.cfg.allow_zst_blocks && self.is_zst_like(&t) {
            self.excluded_zst += 1;
            return self.prim(false);
        }
        t
    }

    fn elem(&mut self, depth: usize) -> Ty {
        // element of a sequence: zero-copy element or deep type
        if self.src.chance(3, 5) {
            self.zero_elem_nz(depth)
        } else {
            let leaf = depth >= self.cfg.max_depth;
            self.deep(depth, leaf)
        }
    }

    fn deep(&mut self, depth: usize, leaf: bool) -> Ty {
        if leaf {
            return match self.src.pick(4) {
                0 => Ty::String,
                1 => Ty::BoxStr,
                2 => Ty::vec(self.prim(false)),
                _ => Ty::opt(self.prim(true)),
            };
        }
        match self.src.pick(if self.cfg.allow_control_flow { 10 } else { 9 }) {
            0 => Ty::String,
            1 => Ty::BoxStr,
            2 => Ty::vec(self.elem(depth + 1)),
            3 => Ty::bslice(self.elem(depth + 1)),
            4 => {
                let e = self.deep(depth + 1, depth + 1 >= self.cfg.max_depth);
                let n = self.src.pick(4);
                Ty::arr(e, n)
            }
            5 => Ty::opt(self.closed(depth + 1, Want::Any)),
            6 => Ty::bound(self.closed(depth + 1, Want::Any)),
            7 | 8 => {
                let ds = self.deep_adts();
                if ds.is_empty() {
                    return Ty::vec(self.elem(depth + 1));
                }
                let i = self.src.of(&ds);
                let args = self.inst_args(i, depth);
                Ty::adt(i, args)
            }
            _ => {
                let b = self.closed(depth + 1, Want::Any);
                let c = self.closed(depth + 1, Want::Any);
                Ty::cf(b, c)
            }
        }
    }

    // ------------------------------------------------------------------ definitions

    fn field_names(&mut self, n: usize) -> Vec<String> {
        const POOL: [&str; 16] = ["a", "b", "c", "data", "len", "x", "y", "inner", "r#type", "_m", "items", "key", "val", "r#loop", "w", "z"];
        let start = self.src.pick(POOL.len());
        (0..n).map(|i| if i < POOL.len() { POOL[(start + i) % POOL.len()].to_string() } else { format!("f{}", i) }).collect()
    }

    fn mk_fields(&mut self, tys: Vec<Ty>, allow_unit: bool) -> Fields {
        if tys.is_empty() {
            return match self.src.pick(if allow_unit { 3 } else { 2 }) {
                0 => Fields::Named(vec![]),
                1 => Fields::Tuple(vec![]),
                _ => Fields::Unit,
            };
        }
        if self.src.chance(1, 3) {
            Fields::Tuple(tys)
        } else {
            let names = self.field_names(tys.len());
            Fields::Named(names.into_iter().zip(tys).collect())
        }
    }

    /// Generate one definition referencing only earlier definitions.
    pub fn adt(&mut self, idx: usize) -> AdtDef {
        let zero = self.src.chance(2, 5);
        let is_enum = self.src.chance(2, 5);
        let name = format!("{}{}", if is_enum { "E" } else { "S" }, idx);
        let mut def = AdtDef {
            name,
            module: String::new(),
            copy: if zero {
                CopyKind::Zero
            } else if self.src.chance(1, 2) {
                CopyKind::DeepAttr
            } else {
                CopyKind::DeepPlain
            },
            reprs: vec![],
            params: vec![],
            where_preds: vec![],
            body: Body::Struct(Fields::Unit),
            mutant_of: None,
            mutation: None,
        };
        if zero {
            def.reprs.push("C".into());
            if self.src.chance(1, 4) {
                def.reprs.push(format!("align({})", self.src.of(&[2usize, 4, 8, 16, 32, 64])));
            }
        } else if self.src.chance(1, 8) {
            def.reprs.push("C".into());
        }

        // parameters: roles decided up-front
        #[derive(Clone, Copy, PartialEq)]
        enum Role {
            Field,
            InnerZero,
            InnerDeep,
            InnerFree,
            Phantom,
            ConstLen,
            ConstFree,
        }
        let n_params = match self.src.pick(8) {
            0..=3 => 0,
            4 | 5 => 1,
            6 => 2,
            _ => 3,
        };
        let mut roles = vec![];
        for k in 0..n_params {
            let role = if zero {
                self.src.of(&[Role::Field, Role::Field, Role::InnerZero, Role::Phantom, Role::ConstLen, Role::ConstFree])
            } else {
                self.src.of(&[Role::Field, Role::Field, Role::Field, Role::InnerZero, Role::InnerDeep, Role::InnerFree, Role::Phantom, Role::ConstLen, Role::ConstFree])
            };
            roles.push(role);
            let tname = ["A", "B", "C"][k].to_string();
            let cname = ["N", "M", "K"][k].to_string();
            let p = match role {
                Role::ConstLen => ParamDef::Const { name: cname, cty: CTy::Usize, default: None },
                Role::ConstFree => ParamDef::Const { name: cname, cty: self.src.of(&[CTy::Usize, CTy::Bool, CTy::Char, CTy::I8]), default: None },
                _ => {
                    let mut bounds = vec![];
                    if zero || role == Role::InnerZero {
                        bounds.push("epserde::traits::ZeroCopy".to_string());
                    }
                    if role == Role::InnerDeep {
                        bounds.push("epserde::traits::DeepCopy".to_string());
                    }
                    if self.src.chance(1, 3) {
                        bounds.push(self.src.of(&["Clone", "core::fmt::Debug", "Clone + core::fmt::Debug"]).to_string());
                    }
                    ParamDef::Type { name: tname, bounds, default: None }
                }
            };
            def.params.push(p);
        }
        // where-clauses on any type parameter
        for (k, r) in roles.iter().enumerate() {
            if matches!(r, Role::Field | Role::InnerZero | Role::InnerDeep | Role::InnerFree | Role::Phantom) && self.src.chance(1, 4) {
                def.where_preds.push((k, vec![self.src.of(&["Clone", "core::fmt::Debug", "Sized"]).to_string()]));
            }
        }

        // variants and fields
        let n_variants = if is_enum {
            if self.src.chance(1, 12) {
                20
            } else {
                1 + self.src.pick(5)
            }
        } else {
            1
        };
        let mut variants: Vec<Vec<Ty>> = vec![];
        for _ in 0..n_variants {
            let n_fields = match self.src.pick(10) {
                0 => 0,
                1..=3 => 1,
                4..=6 => 2,
                7 | 8 => 3,
                _ => 5 + self.src.pick(4),
            };
            let mut tys = vec![];
            for _ in 0..n_fields {
                let t = if zero {
                    let t = self.zero_elem(2, false);
                    // fields of zero-copy aggregates may be zero-sized, but O4's class (whole aggregate zero-sized) is handled at use sites
                    t
                } else {
                    self.closed(1, Want::Any)
                };
                tys.push(t);
            }
            variants.push(tys);
        }
        // place parameters
        for (k, r) in roles.iter().enumerate() {
            let var = self.src.pick(variants.len());
            let fields = &mut variants[var];
            let pos = self.src.pick(fields.len() + 1);
            let t = match r {
                Role::Field => Ty::Param(k),
                Role::InnerZero => match self.src.pick(if zero { 2 } else { 5 }) {
                    0 => Ty::Array(Box::new(Ty::Param(k)), CExpr::Lit(CVal::Usize(1 + self.src.pick(3) as u64))),
                    1 => Ty::tup(Ty::Param(k), 1 + self.src.pick(3)),
                    2 => Ty::vec(Ty::Param(k)),
                    3 => Ty::bslice(Ty::Param(k)),
                    _ => Ty::opt(Ty::vec(Ty::Param(k))),
                },
                Role::InnerDeep => match self.src.pick(3) {
                    0 => Ty::vec(Ty::Param(k)),
                    1 => Ty::bslice(Ty::Param(k)),
                    _ => Ty::Array(Box::new(Ty::Param(k)), CExpr::Lit(CVal::Usize(self.src.pick(3) as u64))),
                },
                Role::InnerFree => match self.src.pick(2) {
                    0 => Ty::opt(Ty::Param(k)),
                    _ => Ty::bound(Ty::Param(k)),
                },
                Role::Phantom => Ty::phantom(Ty::Param(k)),
                Role::ConstLen => Ty::Array(Box::new(self.prim(false)), CExpr::Param(k)),
                Role::ConstFree => continue,
            };
            fields.insert(pos, t);
            // a field parameter may be the type of several fields
            if *r == Role::Field && self.src.chance(1, 5) {
                let var2 = self.src.pick(variants.len());
                variants[var2].push(Ty::Param(k));
            }
        }
        // defaults on a suffix of the parameters
        let mut k = def.params.len();
        while k > 0 && self.src.chance(1, 3) {
            k -= 1;
            let role = roles[k];
            let dflt_ty = match role {
                Role::Field => Some(if zero { self.prim(false) } else { self.closed(self.cfg.max_depth - 1, Want::Any) }),
                Role::InnerZero => Some(self.prim(false)),
                Role::InnerDeep => Some(Ty::String),
                Role::InnerFree | Role::Phantom => Some(self.prim(true)),
                _ => None,
            };
            match &mut def.params[k] {
                ParamDef::Type { default, .. } => *default = dflt_ty,
                ParamDef::Const { cty, default, .. } => {
                    *default = Some(match cty {
                        CTy::Usize => CVal::Usize(1 + self.src.pick(3) as u64),
                        CTy::Bool => CVal::Bool(true),
                        CTy::Char => CVal::Char('q'),
                        CTy::I8 => CVal::I8(-3),
                    })
                }
            }
        }
        def.body = if is_enum {
            const VN: [&str; 8] = ["A", "B", "Unit", "Pair", "r#Move", "Leaf", "Node", "Z"];
            let start = self.src.pick(VN.len());
            let mut vs = vec![];
            for (n, tys) in variants.into_iter().enumerate() {
                let name = if n < VN.len() { VN[(start + n) % VN.len()].to_string() } else { format!("V{}", n) };
                let f = self.mk_fields(tys, true);
                vs.push((name, f));
            }
            Body::Enum(vs)
        } else {
            let tys = variants.pop().unwrap();
            Body::Struct(self.mk_fields(tys, true))
        };
        // ---- shapes outside the plain grammar
        fn flat(t: &Ty) -> bool {
            match t {
                Ty::Prim(_) => true,
                Ty::Array(e, CExpr::Lit(_)) | Ty::Tuple(e, _) => flat(e),
                _ => false,
            }
        }
        // packed zero-copy structures (size no longer a multiple of the alignment unit)
        if zero && !is_enum && def.params.is_empty() && def.reprs.len() == 1 && !def.all_fields().is_empty() && def.all_fields().iter().all(|t| flat(t)) && self.src.chance(1, 5) {
            def.reprs.push(self.src.of(&["packed", "packed(2)", "packed(4)"]).to_string());
        }
        // deep-copy enums with a primitive representation (the format's tag stays a usize)
        if !zero && is_enum && def.reprs.is_empty() && self.src.chance(1, 5) {
            def.reprs.push(self.src.of(&["u8", "u16", "u32", "C, u8", "usize"]).to_string());
        }
        // definitions emitted through macro_rules! with `ty` fragments (see render.rs)
        if self.src.chance(1, 8) {
            def.name = format!("Mac{}", def.name);
        }
        def
    }
}

/// Rough upper estimate of `size_of` of a zero-copy type (keeps generated aggregates from multiplying into
/// values of hundreds of kilobytes, which overflow thread stacks when passed by value at opt-level 0).
pub fn est_size(u: &Universe, t: &Ty) -> usize {
    match t {
        Ty::Prim(p) => p.size(),
        Ty::Phantom(_) | Ty::RangeFull => 0,
        Ty::Array(e, CExpr::Lit(c)) => est_size(u, e) * c.as_usize(),
        Ty::Array(e, _) => est_size(u, e) * 4,
        Ty::Tuple(e, n) => est_size(u, e) * n,
        Ty::Range(_, e) => 2 * est_size(u, e) + 8,
        Ty::Adt(i, args) => {
            let d = &u.adts[*i];
            if !d.is_zero() {
                return 64;
            }
            let mut m = 0;
            for v in 0..d.n_variants() {
                let s: usize = d.variant_fields(v).types().iter().map(|f| est_size(u, &f.subst(args)) + 16).sum();
                m = m.max(s);
            }
            m + 64
        }
        Ty::Param(_) => 16,
        _ => 32,
    }
}

pub const MAX_ZERO_SIZE: usize = 1536;

/// Whether a zero-copy type has alignment unit 0 or size 0 as a block (O3/O4 class).
pub fn zst_like(u: &Universe, t: &Ty) -> bool {
    match t {
        Ty::Prim(Prim::Unit) | Ty::Phantom(_) | Ty::RangeFull => true,
        Ty::Prim(_) | Ty::Range(..) => false,
        Ty::Array(e, _) => t.array_len() == 0 || zst_like(u, e),
        Ty::Tuple(e, _) => zst_like(u, e),
        Ty::Adt(i, args) => {
            let d = &u.adts[*i];
            if !d.is_zero() {
                return false;
            }
            // a zero-copy aggregate is zero-sized when it is a struct all of whose fields are zero-sized
            // and it has no alignment attribute padding it… repr(align) on an empty struct still gives size 0.
            match &d.body {
                Body::Struct(_) => u.inst_fields(*i, args, 0).iter().all(|f| zst_like(u, f)),
                Body::Enum(_) => false,
            }
        }
        _ => false,
    }
}

/// Does serializing/ε-deserializing a value of closed type `t` involve a zero-sized or unit-0
/// zero-copy block (O3/O4)? `eps` tracks ε positions as in the encoder.
pub fn has_zst_block(u: &Universe, t: &Ty) -> bool {
    fn walk(u: &Universe, t: &Ty) -> bool {
        match t {
            Ty::Prim(_) | Ty::Phantom(_) | Ty::RangeFull | Ty::String | Ty::BoxStr | Ty::Range(..) => false,
            Ty::Vec(e) | Ty::BoxSlice(e) => {
                if u.is_zero(e) {
                    zst_like(u, e)
                } else {
                    walk(u, e)
                }
            }
            Ty::Array(e, _) => {
                if u.is_zero(e) {
                    zst_like(u, t)
                } else {
                    walk(u, e)
                }
            }
            Ty::Tuple(..) => zst_like(u, t),
            Ty::Option(e) | Ty::Bound(e) => walk(u, e),
            Ty::ControlFlow(b, c) => walk(u, b) || walk(u, c),
            Ty::Adt(i, args) => {
                let d = &u.adts[*i];
                if d.is_zero() {
                    zst_like(u, t)
                } else {
                    (0..d.n_variants()).any(|v| u.inst_fields(*i, args, v).iter().any(|f| walk(u, f)))
                }
            }
            Ty::Param(_) => panic!(),
        }
    }
    walk(u, t)
}

pub fn has_control_flow(u: &Universe, t: &Ty) -> bool {
    match t {
        Ty::ControlFlow(..) => true,
        Ty::Phantom(_) => false,
        _ => u.components(t).iter().any(|c| has_control_flow(u, c)),
    }
}

/// Decode a universe from choices.
pub fn universe_from(choices: &[u32], cfg: UniCfg, label: &str) -> (Universe, usize) {
    let mut u = Universe { label: label.to_string(), adts: vec![], subjects: vec![], pairs: vec![] };
    let n = extend_universe(&mut u, choices, cfg);
    (u, n)
}

/// Append generated definitions and subjects to an existing universe; returns the number of
/// candidates excluded by construction (O3/O4 class).
pub fn extend_universe(u: &mut Universe, choices: &[u32], cfg: UniCfg) -> usize {
    let excluded;
    let first = u.adts.len();
    {
        let mut g = Gen { src: Src::new(choices), cfg, u, excluded_zst: 0 };
        for i in 0..cfg.n_adts {
            let d = g.adt(first + i);
            g.u.adts.push(d);
        }
        // subjects: instantiations of every definition, then built-in compositions
        let mut subjects = std::mem::take(&mut g.u.subjects);
        for i in first..g.u.adts.len() {
            let n = 1 + g.src.pick(2);
            for _ in 0..n {
                let args = g.inst_args(i, 1);
                subjects.push(Ty::adt(i, args));
            }
        }
        for _ in 0..cfg.n_builtin_subjects {
            let t = g.closed(0, Want::Any);
            subjects.push(t);
        }
        excluded = g.excluded_zst;
        let mut seen = std::collections::BTreeSet::new();
        subjects.retain(|t| seen.insert(t.clone()));
        g.u.subjects = subjects;
    }
    let mut dropped = 0;
    if !cfg.allow_zst_blocks {
        let uu = u.clone();
        u.subjects.retain(|t| {
            let bad = has_zst_block(&uu, t);
            if bad {
                dropped += 1;
            }
            !bad
        });
    }
    if !cfg.allow_control_flow {
        let uu = u.clone();
        u.subjects.retain(|t| !has_control_flow(&uu, t));
    }
    excluded + dropped
}
