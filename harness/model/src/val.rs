//! Model values and proptest strategies producing them.

use crate::ty::*;
use proptest::prelude::*;
use proptest::strategy::BoxedStrategy;
use serde::{Deserialize, Serialize};

/// A model value. Primitives are raw native-endian bytes so that equality is bit-for-bit.
#[derive(Clone, Debug, PartialEq, Eq, Hash, PartialOrd, Ord, Serialize, Deserialize)]
pub enum Val {
    /// native-endian bytes of a primitive (bool: 1 byte 0/1, char: 4 bytes, NonZero: the integer)
    P(Vec<u8>),
    /// `()`, `PhantomData`, `RangeFull`
    Unit,
    Str(String),
    /// vectors, boxed slices, arrays, tuples
    Seq(Vec<Val>),
    /// struct fields / range bounds in declaration order
    Rec(Vec<Val>),
    /// variant index (declaration order) and its fields
    Var(usize, Vec<Val>),
}

impl Val {
    pub fn u64(&self) -> u64 {
        match self {
            Val::P(b) => {
                let mut a = [0u8; 8];
                let n = b.len().min(8);
                a[..n].copy_from_slice(&b[..n]);
                u64::from_ne_bytes(a)
            }
            _ => panic!("not a primitive"),
        }
    }
    pub fn bytes(&self) -> &[u8] {
        match self {
            Val::P(b) => b,
            _ => panic!("not a primitive"),
        }
    }
    pub fn seq(&self) -> &[Val] {
        match self {
            Val::Seq(v) | Val::Rec(v) => v,
            _ => panic!("not a sequence: {:?}", self),
        }
    }
    pub fn str(&self) -> &str {
        match self {
            Val::Str(s) => s,
            _ => panic!("not a string"),
        }
    }
    pub fn var(&self) -> (usize, &[Val]) {
        match self {
            Val::Var(i, f) => (*i, f),
            _ => panic!("not a variant: {:?}", self),
        }
    }
    /// Compact human-readable rendering for evidence samples.
    pub fn show(&self) -> String {
        let mut s = String::new();
        self.show_into(&mut s, 400);
        s
    }
    fn show_into(&self, s: &mut String, limit: usize) {
        if s.len() > limit {
            if !s.ends_with('…') {
                s.push('…');
            }
            return;
        }
        match self {
            Val::P(b) => {
                s.push_str("0x");
                for x in b.iter().rev() {
                    s.push_str(&format!("{:02x}", x));
                }
            }
            Val::Unit => s.push_str("()"),
            Val::Str(x) => s.push_str(&format!("{:?}", x)),
            Val::Seq(v) | Val::Rec(v) => {
                s.push(if matches!(self, Val::Seq(_)) { '[' } else { '{' });
                for (i, x) in v.iter().enumerate() {
                    if i > 0 {
                        s.push(',');
                    }
                    x.show_into(s, limit);
                }
                s.push(if matches!(self, Val::Seq(_)) { ']' } else { '}' });
            }
            Val::Var(i, v) => {
                s.push_str(&format!("#{}(", i));
                for (k, x) in v.iter().enumerate() {
                    if k > 0 {
                        s.push(',');
                    }
                    x.show_into(s, limit);
                }
                s.push(')');
            }
        }
    }
}

/// Parameters of value generation.
#[derive(Clone, Copy, Debug)]
pub struct GenCfg {
    /// maximal ordinary sequence length
    pub max_len: usize,
    /// allow the occasional long sequence (17/64/300)
    pub long: bool,
}

impl Default for GenCfg {
    fn default() -> Self {
        GenCfg { max_len: 9, long: true }
    }
}

fn int_edges(size: usize, signed: bool) -> Vec<Vec<u8>> {
    // extremes and their neighbours, as little-endian two's complement of `size` bytes
    let mut out = vec![];
    let ones = vec![0xffu8; size];
    let zero = vec![0u8; size];
    let mut one = zero.clone();
    one[0] = 1;
    let mut two = zero.clone();
    two[0] = 2;
    let mut max_s = ones.clone();
    max_s[size - 1] = 0x7f;
    let mut min_s = zero.clone();
    min_s[size - 1] = 0x80;
    let mut minp1 = min_s.clone();
    minp1[0] = 1;
    let mut maxm1 = max_s.clone();
    maxm1[0] = 0xfe;
    let mut m2 = ones.clone();
    m2[0] = 0xfe;
    out.push(zero);
    out.push(one);
    out.push(two);
    out.push(ones); // -1 or MAX
    out.push(m2); // -2 or MAX-1
    out.push(max_s);
    out.push(min_s);
    if signed {
        out.push(minp1);
        out.push(maxm1);
    }
    out
}

fn le_to_ne(mut v: Vec<u8>) -> Vec<u8> {
    if cfg!(target_endian = "big") {
        v.reverse();
    }
    v
}

fn prim_strategy(p: Prim) -> BoxedStrategy<Val> {
    use Prim::*;
    match p {
        Unit => Just(Val::Unit).boxed(),
        Bool => any::<bool>().prop_map(|b| Val::P(vec![b as u8])).boxed(),
        Char => prop_oneof![
            3 => any::<char>(),
            1 => prop::sample::select(vec!['\0', 'a', '\u{7f}', '\u{80}', '\u{7ff}', '\u{800}', '\u{d7ff}', '\u{e000}', '\u{ffff}', '\u{10000}', '\u{10ffff}', 'ε']),
        ]
        .prop_map(|c| Val::P((c as u32).to_ne_bytes().to_vec()))
        .boxed(),
        F32 => prop_oneof![
            3 => any::<u32>().prop_map(|b| b),
            1 => prop::sample::select(vec![0u32, 0x8000_0000, 0x7f80_0000, 0xff80_0000, 0x7fc0_0000, 0x7fc0_0001, 0xffc1_2345, 0x7f80_0001, 1, 0x007f_ffff, 0x3f80_0000]),
        ]
        .prop_map(|b| Val::P(b.to_ne_bytes().to_vec()))
        .boxed(),
        F64 => prop_oneof![
            3 => any::<u64>().prop_map(|b| b),
            1 => prop::sample::select(vec![0u64, 1 << 63, 0x7ff0 << 48, 0xfff0 << 48, 0x7ff8 << 48, (0x7ff8 << 48) | 1, (0xfff8u64 << 48) | 0xdead_beef, (0x7ff0 << 48) | 1, 1, 0x000f_ffff_ffff_ffff, 0x3ff0 << 48]),
        ]
        .prop_map(|b| Val::P(b.to_ne_bytes().to_vec()))
        .boxed(),
        _ => {
            let size = p.size();
            let nz = p.is_nonzero();
            let edges: Vec<Vec<u8>> = int_edges(size, p.is_signed())
                .into_iter()
                .filter(|b| !nz || b.iter().any(|x| *x != 0))
                .map(le_to_ne)
                .collect();
            prop_oneof![
                2 => prop::collection::vec(any::<u8>(), size..=size).prop_map(move |mut b| {
                    if nz && b.iter().all(|x| *x == 0) {
                        b[0] = 1;
                    }
                    b
                }),
                1 => (0u8..=40).prop_map(move |x| {
                    let mut b = vec![0u8; size];
                    let x = if nz && x == 0 { 1 } else { x };
                    if cfg!(target_endian = "big") { b[size - 1] = x } else { b[0] = x };
                    b
                }),
                1 => prop::sample::select(edges),
            ]
            .prop_map(Val::P)
            .boxed()
        }
    }
}

fn string_strategy(cfg: GenCfg) -> BoxedStrategy<Val> {
    let max = cfg.max_len;
    prop_oneof![
        2 => Just(String::new()),
        4 => prop::collection::vec(prop_oneof![
            4 => (0x20u8..0x7f).prop_map(|b| b as char),
            1 => prop::sample::select(vec!['é', 'ß', 'ε', 'Ж', '€', '한', '𝄞', '😀', '\u{0}', '\u{7f}', '\u{80}', '\u{7ff}', '\u{800}', '\u{ffff}', '\u{10000}', '\u{10ffff}']),
            1 => any::<char>(),
        ], 1..=max.max(1)).prop_map(|v| v.into_iter().collect::<String>()),
        1 => "[a-z]{17,70}".prop_map(|s| s),
    ]
    .prop_map(Val::Str)
    .boxed()
}

fn len_strategy(cfg: GenCfg) -> BoxedStrategy<usize> {
    let max = cfg.max_len;
    if cfg.long {
        prop_oneof![
            3 => Just(0usize),
            3 => Just(1usize),
            8 => 0..=max,
            1 => prop::sample::select(vec![17usize, 64, 300]),
        ]
        .boxed()
    } else {
        prop_oneof![2 => Just(0usize), 2 => Just(1usize), 8 => 0..=max].boxed()
    }
}

/// Rough number of nodes of a small value of the closed type `t` (sequences counted as one item).
pub fn val_weight(u: &Universe, t: &Ty, depth: usize) -> usize {
    if depth > 12 {
        return 1;
    }
    match t {
        Ty::Array(e, _) => 1 + t.array_len() * val_weight(u, e, depth + 1),
        Ty::Tuple(e, n) => 1 + n * val_weight(u, e, depth + 1),
        Ty::Vec(e) | Ty::BoxSlice(e) | Ty::Option(e) | Ty::Bound(e) | Ty::Range(_, e) => 1 + val_weight(u, e, depth + 1),
        Ty::ControlFlow(b, c) => 1 + val_weight(u, b, depth + 1).max(val_weight(u, c, depth + 1)),
        Ty::Adt(i, args) => {
            let d = &u.adts[*i];
            1 + (0..d.n_variants()).map(|v| u.inst_fields(*i, args, v).iter().map(|f| val_weight(u, f, depth + 1)).sum::<usize>()).max().unwrap_or(0)
        }
        _ => 1,
    }
}

/// Strategy for values of the closed type `t`.
pub fn val_strategy(u: &Universe, t: &Ty, cfg: GenCfg) -> BoxedStrategy<Val> {
    val_strategy_d(u, t, cfg, 0)
}

fn val_strategy_d(u: &Universe, t: &Ty, cfg: GenCfg, depth: usize) -> BoxedStrategy<Val> {
    // deeper levels get shorter sequences so that total size stays bounded
    let sub = GenCfg { max_len: if depth >= 1 { cfg.max_len.min(4) } else { cfg.max_len }, long: cfg.long && depth == 0 };
    let rec = |t: &Ty| val_strategy_d(u, t, sub, depth + 1);
    match t {
        Ty::Prim(p) => prim_strategy(*p),
        Ty::Phantom(_) | Ty::RangeFull => Just(Val::Unit).boxed(),
        Ty::String | Ty::BoxStr => string_strategy(sub),
        Ty::Vec(e) | Ty::BoxSlice(e) => {
            let es = rec(e);
            // items of hundreds of components: a few of them are enough
            let w = val_weight(u, e, 0);
            let sub = if w >= 256 { GenCfg { max_len: sub.max_len.min((20_000 / w).clamp(2, 5)), long: false } } else { sub };
            len_strategy(sub).prop_flat_map(move |n| prop::collection::vec(es.clone(), n..=n)).prop_map(Val::Seq).boxed()
        }
        Ty::Array(e, _) => {
            let n = t.array_len();
            prop::collection::vec(rec(e), n..=n).prop_map(Val::Seq).boxed()
        }
        Ty::Tuple(e, n) => prop::collection::vec(rec(e), *n..=*n).prop_map(Val::Seq).boxed(),
        Ty::Option(e) => prop_oneof![Just(Val::Var(0, vec![])), rec(e).prop_map(|v| Val::Var(1, vec![v]))].boxed(),
        Ty::Bound(e) => {
            let s = rec(e);
            prop_oneof![
                Just(Val::Var(0, vec![])),
                s.clone().prop_map(|v| Val::Var(1, vec![v])),
                s.prop_map(|v| Val::Var(2, vec![v])),
            ]
            .boxed()
        }
        Ty::ControlFlow(b, c) => {
            prop_oneof![rec(b).prop_map(|v| Val::Var(0, vec![v])), rec(c).prop_map(|v| Val::Var(1, vec![v])),].boxed()
        }
        Ty::Range(k, e) => prop::collection::vec(rec(e), k.arity()..=k.arity()).prop_map(Val::Rec).boxed(),
        Ty::Adt(i, args) => {
            let def = &u.adts[*i];
            match &def.body {
                Body::Struct(_) => {
                    let fs: Vec<BoxedStrategy<Val>> = u.inst_fields(*i, args, 0).iter().map(|t| rec(t)).collect();
                    fs.prop_map(Val::Rec).boxed()
                }
                Body::Enum(vs) => {
                    let mut alts: Vec<BoxedStrategy<Val>> = vec![];
                    for var in 0..vs.len() {
                        let fs: Vec<BoxedStrategy<Val>> = u.inst_fields(*i, args, var).iter().map(|t| rec(t)).collect();
                        alts.push(fs.prop_map(move |f| Val::Var(var, f)).boxed());
                    }
                    proptest::strategy::Union::new(alts).boxed()
                }
            }
        }
        Ty::Param(_) => panic!("value strategy for open type"),
    }
}

/// The simplest value of a type (used for defaults and sibling pairs).
pub fn min_val(u: &Universe, t: &Ty) -> Val {
    match t {
        Ty::Prim(Prim::Unit) | Ty::Phantom(_) | Ty::RangeFull => Val::Unit,
        Ty::Prim(p) => {
            let mut b = vec![0u8; p.size()];
            if p.is_nonzero() {
                if cfg!(target_endian = "big") {
                    let n = b.len();
                    b[n - 1] = 1
                } else {
                    b[0] = 1
                }
            }
            Val::P(b)
        }
        Ty::String | Ty::BoxStr => Val::Str(String::new()),
        Ty::Vec(_) | Ty::BoxSlice(_) => Val::Seq(vec![]),
        Ty::Array(e, _) => Val::Seq(vec![min_val(u, e); t.array_len()]),
        Ty::Tuple(e, n) => Val::Seq(vec![min_val(u, e); *n]),
        Ty::Option(_) | Ty::Bound(_) => Val::Var(0, vec![]),
        Ty::ControlFlow(b, _) => Val::Var(0, vec![min_val(u, b)]),
        Ty::Range(k, e) => Val::Rec(vec![min_val(u, e); k.arity()]),
        Ty::Adt(i, args) => {
            let fs = u.inst_fields(*i, args, 0).iter().map(|t| min_val(u, t)).collect();
            match &u.adts[*i].body {
                Body::Struct(_) => Val::Rec(fs),
                Body::Enum(_) => Val::Var(0, fs),
            }
        }
        Ty::Param(_) => panic!("min_val of open type"),
    }
}

/// Structural facts about a (type, value) pair used to classify generated cases.
#[derive(Clone, Debug, Default, PartialEq, Eq)]
pub struct Shape {
    pub nonempty_seq: bool,
    pub empty_seq: bool,
    pub nonfirst_variant: bool,
    pub nondefault_prim: bool,
    pub has_tag: bool,
    pub has_zst_elem: bool,
    pub depth: usize,
    pub nodes: usize,
}

pub fn shape(u: &Universe, t: &Ty, v: &Val) -> Shape {
    let mut s = Shape::default();
    shape_rec(u, t, v, 0, &mut s);
    s
}

fn shape_rec(u: &Universe, t: &Ty, v: &Val, d: usize, s: &mut Shape) {
    s.depth = s.depth.max(d);
    s.nodes += 1;
    match t {
        Ty::Prim(Prim::Unit) | Ty::Phantom(_) | Ty::RangeFull => {}
        Ty::Prim(_) => {
            if *v != min_val(u, t) {
                s.nondefault_prim = true;
            }
        }
        Ty::String | Ty::BoxStr => {
            if v.str().is_empty() {
                s.empty_seq = true
            } else {
                s.nonempty_seq = true
            }
        }
        Ty::Vec(e) | Ty::BoxSlice(e) | Ty::Array(e, _) | Ty::Tuple(e, _) => {
            let xs = v.seq();
            if xs.is_empty() {
                s.empty_seq = true
            } else {
                s.nonempty_seq = true
            }
            for x in xs {
                shape_rec(u, e, x, d + 1, s);
            }
        }
        Ty::Option(e) | Ty::Bound(e) => {
            s.has_tag = true;
            let (i, f) = v.var();
            if i > 0 {
                s.nonfirst_variant = true;
                shape_rec(u, e, &f[0], d + 1, s);
            }
        }
        Ty::ControlFlow(b, c) => {
            s.has_tag = true;
            let (i, f) = v.var();
            if i > 0 {
                s.nonfirst_variant = true;
            }
            shape_rec(u, if i == 0 { b } else { c }, &f[0], d + 1, s);
        }
        Ty::Range(_, e) => {
            for x in v.seq() {
                shape_rec(u, e, x, d + 1, s);
            }
        }
        Ty::Adt(i, args) => match &u.adts[*i].body {
            Body::Struct(_) => {
                for (ft, fv) in u.inst_fields(*i, args, 0).iter().zip(v.seq()) {
                    shape_rec(u, ft, fv, d + 1, s);
                }
            }
            Body::Enum(_) => {
                s.has_tag = true;
                let (k, f) = v.var();
                if k > 0 {
                    s.nonfirst_variant = true;
                }
                for (ft, fv) in u.inst_fields(*i, args, k).iter().zip(f) {
                    shape_rec(u, ft, fv, d + 1, s);
                }
            }
        },
        Ty::Param(_) => panic!(),
    }
}
