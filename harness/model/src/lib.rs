//! Model of ε-serde used by the verification harness: type descriptions, values, strategies,
//! reference encoder/hasher and the Rust renderer of generated subject programs.

pub mod borrows;
pub mod decode;
pub mod fixedgen;
pub mod format;
pub mod gen;
pub mod mutate;
pub mod render;
pub mod ty;
pub mod val;

/// Deterministic 64-bit mix used to derive per-subject / per-property seeds (splitmix64 finaliser
/// over FNV-1a of the parts). No ambient randomness anywhere in the harness.
pub fn mix_seed(parts: &[&str], seed: u64) -> u64 {
    let mut h: u64 = 0xcbf29ce484222325 ^ seed.wrapping_mul(0x9e3779b97f4a7c15);
    for p in parts {
        for b in p.as_bytes() {
            h ^= *b as u64;
            h = h.wrapping_mul(0x100000001b3);
        }
        h ^= 0xff;
        h = h.wrapping_mul(0x100000001b3);
    }
    let mut z = h.wrapping_add(0x9e3779b97f4a7c15);
    z = (z ^ (z >> 30)).wrapping_mul(0xbf58476d1ce4e5b9);
    z = (z ^ (z >> 27)).wrapping_mul(0x94d049bb133111eb);
    z ^ (z >> 31)
}

pub fn seed_bytes(x: u64) -> [u8; 32] {
    let mut out = [0u8; 32];
    let mut s = x;
    for c in out.chunks_mut(8) {
        s = mix_seed(&[], s);
        c.copy_from_slice(&s.to_le_bytes());
    }
    out
}
