//! Decoding of model values from raw bytes (fuzzer input): a tiny data-provider layer so that the
//! coverage-guided fuzzer reaches logic instead of dying in input validation.

use crate::ty::*;
use crate::val::Val;

pub struct Bytes<'a> {
    data: &'a [u8],
    pos: usize,
}

impl<'a> Bytes<'a> {
    pub fn new(data: &'a [u8]) -> Self {
        Bytes { data, pos: 0 }
    }
    pub fn byte(&mut self) -> u8 {
        let b = self.data.get(self.pos).copied().unwrap_or(0);
        self.pos += 1;
        b
    }
    pub fn take(&mut self, n: usize) -> Vec<u8> {
        (0..n).map(|_| self.byte()).collect()
    }
    pub fn below(&mut self, n: usize) -> usize {
        if n <= 1 {
            0
        } else if n <= 256 {
            self.byte() as usize * n / 256
        } else {
            (((self.byte() as usize) << 8) | self.byte() as usize) * n / 65536
        }
    }
    pub fn exhausted(&self) -> bool {
        self.pos >= self.data.len()
    }
    pub fn rest(&mut self) -> Vec<u8> {
        let r = self.data.get(self.pos..).unwrap_or(&[]).to_vec();
        self.pos = self.data.len();
        r
    }
}

fn seq_len(b: &mut Bytes, depth: usize) -> usize {
    if b.exhausted() {
        return 0;
    }
    let x = b.byte();
    let max = if depth == 0 { 40 } else { 6 };
    match x {
        0..=63 => 0,
        64..=127 => 1,
        _ => (x as usize - 128) * max / 128,
    }
}

pub fn val_from_bytes(u: &Universe, t: &Ty, b: &mut Bytes, depth: usize) -> Val {
    match t {
        Ty::Prim(Prim::Unit) | Ty::Phantom(_) | Ty::RangeFull => Val::Unit,
        Ty::Prim(Prim::Bool) => Val::P(vec![b.byte() & 1]),
        Ty::Prim(Prim::Char) => {
            let raw = u32::from_le_bytes([b.byte(), b.byte(), b.byte(), 0]) % 0x11_0000;
            let c = char::from_u32(raw).unwrap_or('\u{fffd}');
            Val::P((c as u32).to_ne_bytes().to_vec())
        }
        Ty::Prim(p) => {
            let mut v = b.take(p.size());
            if p.is_nonzero() && v.iter().all(|x| *x == 0) {
                v[0] = 1;
            }
            Val::P(v)
        }
        Ty::String | Ty::BoxStr => {
            let n = seq_len(b, depth);
            let s: String = (0..n)
                .map(|_| {
                    let x = b.byte();
                    match x {
                        0..=199 => (0x20 + x % 95) as char,
                        200..=219 => 'é',
                        220..=239 => '€',
                        _ => '😀',
                    }
                })
                .collect();
            Val::Str(s)
        }
        Ty::Vec(e) | Ty::BoxSlice(e) => {
            let n = seq_len(b, depth);
            Val::Seq((0..n).map(|_| val_from_bytes(u, e, b, depth + 1)).collect())
        }
        Ty::Array(e, _) => Val::Seq((0..t.array_len()).map(|_| val_from_bytes(u, e, b, depth + 1)).collect()),
        Ty::Tuple(e, n) => Val::Seq((0..*n).map(|_| val_from_bytes(u, e, b, depth + 1)).collect()),
        Ty::Option(e) => {
            if b.byte() & 1 == 0 {
                Val::Var(0, vec![])
            } else {
                Val::Var(1, vec![val_from_bytes(u, e, b, depth + 1)])
            }
        }
        Ty::Bound(e) => match b.byte() % 3 {
            0 => Val::Var(0, vec![]),
            k => Val::Var(k as usize, vec![val_from_bytes(u, e, b, depth + 1)]),
        },
        Ty::ControlFlow(x, y) => {
            if b.byte() & 1 == 0 {
                Val::Var(0, vec![val_from_bytes(u, x, b, depth + 1)])
            } else {
                Val::Var(1, vec![val_from_bytes(u, y, b, depth + 1)])
            }
        }
        Ty::Range(k, e) => Val::Rec((0..k.arity()).map(|_| val_from_bytes(u, e, b, depth + 1)).collect()),
        Ty::Adt(i, args) => {
            let def = &u.adts[*i];
            let var = match &def.body {
                Body::Struct(_) => 0,
                Body::Enum(vs) => b.below(vs.len()),
            };
            let fs: Vec<Val> = u.inst_fields(*i, args, var).iter().map(|ft| val_from_bytes(u, ft, b, depth + 1)).collect();
            match &def.body {
                Body::Struct(_) => Val::Rec(fs),
                Body::Enum(_) => Val::Var(var, fs),
            }
        }
        Ty::Param(_) => panic!("open type"),
    }
}
