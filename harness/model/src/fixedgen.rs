//! The hand-written part of the fixed universe: every built-in constructor named by C01 at top
//! level and nested, and one definition per grammar production. A frozen generated part is
//! appended. The result is committed as JSON (`harness/fixed_universe/universe.json`); the golden
//! corpus refers to it, so this file may only be *extended at the end*.

use crate::gen::{self, UniCfg};
use crate::ty::*;

fn p(x: Prim) -> Ty {
    Ty::Prim(x)
}
fn named(fs: &[(&str, Ty)]) -> Fields {
    Fields::Named(fs.iter().map(|(n, t)| (n.to_string(), t.clone())).collect())
}
fn tparam(name: &str, bounds: &[&str]) -> ParamDef {
    ParamDef::Type { name: name.into(), bounds: bounds.iter().map(|s| s.to_string()).collect(), default: None }
}
fn def(name: &str, copy: CopyKind, reprs: &[&str], params: Vec<ParamDef>, body: Body) -> AdtDef {
    AdtDef {
        name: name.into(),
        module: String::new(),
        copy,
        reprs: reprs.iter().map(|s| s.to_string()).collect(),
        params,
        where_preds: vec![],
        body,
        mutant_of: None,
        mutation: None,
    }
}
fn a(t: Ty) -> Arg {
    Arg::Ty(t)
}
fn cu(n: u64) -> Arg {
    Arg::Const(CExpr::Lit(CVal::Usize(n)))
}

pub const ZC: &str = "epserde::traits::ZeroCopy";
pub const DC: &str = "epserde::traits::DeepCopy";

pub fn fixed_universe() -> Universe {
    use CopyKind::*;
    use Prim::*;
    let mut u = Universe { label: "fixed".into(), adts: vec![], subjects: vec![], pairs: vec![] };
    let mut add = |d: AdtDef| -> usize {
        u.adts.push(d);
        u.adts.len() - 1
    };
    // ---- zero-copy definitions
    let z1 = add(def("Z1", Zero, &["C"], vec![], Body::Struct(named(&[("a", p(U8)), ("b", p(U32))]))));
    let z2 = add(def("Z2", Zero, &["C"], vec![], Body::Struct(Fields::Tuple(vec![p(U64), p(U16), Ty::arr(p(U8), 3)]))));
    let z3 = add(def("Z3", Zero, &["C", "align(16)"], vec![], Body::Struct(named(&[("x", p(F32))]))));
    let z0 = add(def("Z0", Zero, &["C"], vec![], Body::Struct(Fields::Unit)));
    let ze1 = add(def("ZE1", Zero, &["C"], vec![], Body::Enum(vec![("A".into(), Fields::Unit), ("B".into(), Fields::Unit), ("C".into(), Fields::Unit)])));
    let ze2 = add(def(
        "ZE2",
        Zero,
        &["C"],
        vec![],
        Body::Enum(vec![("A".into(), Fields::Unit), ("B".into(), Fields::Tuple(vec![p(U32)])), ("C".into(), named(&[("x", p(U8)), ("y", p(U64))]))]),
    ));
    let zg = add(def("ZG", Zero, &["C"], vec![tparam("A", &[ZC])], Body::Struct(named(&[("a", Ty::Param(0)), ("n", p(U16))]))));
    let zn = add(def(
        "ZN",
        Zero,
        &["C"],
        vec![],
        Body::Struct(named(&[
            ("h", p(U8)),
            ("z", Ty::adt(z1, vec![])),
            ("zs", Ty::arr(Ty::adt(z2, vec![]), 2)),
            ("t", Ty::tup(p(U16), 2)),
            ("r", Ty::range(RangeKind::RangeTo, p(U32))),
            ("full", Ty::RangeFull),
            ("ph", Ty::phantom(Ty::String)),
            ("u", p(Unit)),
            ("c", p(Char)),
            ("nz", p(NzU32)),
        ])),
    ));
    let zgi = add(def(
        "ZGI",
        Zero,
        &["C"],
        vec![tparam("A", &[ZC]), ParamDef::Const { name: "N".into(), cty: CTy::Usize, default: Some(CVal::Usize(2)) }],
        Body::Struct(named(&[("xs", Ty::Array(Box::new(Ty::Param(0)), CExpr::Param(1))), ("k", p(I64))])),
    ));
    let zc = add(def("ZC", Zero, &["C"], vec![ParamDef::Const { name: "N".into(), cty: CTy::Usize, default: Some(CVal::Usize(10)) }], Body::Struct(Fields::Unit)));
    let _ = (z0, zc);
    // ---- deep-copy definitions
    let d1 = add(def(
        "D1",
        DeepPlain,
        &[],
        vec![],
        Body::Struct(named(&[("name", Ty::String), ("vals", Ty::vec(p(U32))), ("z", Ty::adt(z1, vec![])), ("flag", p(Bool))])),
    ));
    let d2 = add(def("D2", DeepPlain, &[], vec![tparam("A", &[])], Body::Struct(named(&[("a", Ty::Param(0)), ("b", p(U8))]))));
    let d3 = add(def(
        "D3",
        DeepAttr,
        &[],
        vec![tparam("A", &[]), tparam("B", &[])],
        Body::Struct(named(&[("a", Ty::Param(0)), ("b", Ty::Param(1)), ("c", Ty::vec(Ty::String)), ("a2", Ty::Param(0))])),
    ));
    let d4 = add(def("D4", DeepPlain, &[], vec![tparam("C", &[ZC])], Body::Struct(named(&[("v", Ty::vec(Ty::Param(0))), ("o", Ty::opt(p(U8)))]))));
    let d5 = add(def("D5", DeepPlain, &[], vec![tparam("C", &[DC])], Body::Struct(named(&[("v", Ty::vec(Ty::Param(0)))]))));
    let d6 = add(def(
        "D6",
        DeepPlain,
        &[],
        vec![tparam("P", &[]), tparam("B", &[])],
        Body::Struct(named(&[("a", Ty::Param(1)), ("_marker2", Ty::phantom(p(Unit))), ("_marker", Ty::phantom(Ty::Param(0)))])),
    ));
    let d7 = add(def(
        "D7",
        DeepPlain,
        &[],
        vec![
            ParamDef::Type { name: "A".into(), bounds: vec!["Clone".into(), "core::fmt::Debug".into()], default: Some(Ty::vec(p(U16))) },
            ParamDef::Const { name: "Q".into(), cty: CTy::Usize, default: Some(CVal::Usize(3)) },
        ],
        Body::Struct(named(&[("a", Ty::Param(0)), ("b", Ty::Array(Box::new(p(I32)), CExpr::Param(1)))])),
    ));
    let de1 = add(def(
        "DE1",
        DeepPlain,
        &[],
        vec![],
        Body::Enum(vec![
            ("Unit".into(), Fields::Unit),
            ("Tup".into(), Fields::Tuple(vec![p(U32), Ty::String])),
            ("Named".into(), named(&[("a", Ty::vec(p(U8))), ("b", Ty::opt(p(U16)))])),
            ("EmptyT".into(), Fields::Tuple(vec![])),
            ("EmptyN".into(), Fields::Named(vec![])),
        ]),
    ));
    let de2 = add(def(
        "DE2",
        DeepAttr,
        &[],
        vec![tparam("A", &[]), tparam("B", &[])],
        Body::Enum(vec![
            ("A".into(), Fields::Tuple(vec![Ty::Param(0)])),
            ("B".into(), Fields::Tuple(vec![Ty::Param(1)])),
            ("Both".into(), named(&[("a", Ty::Param(0)), ("b", Ty::Param(1)), ("n", p(U64))])),
            ("None".into(), Fields::Unit),
        ]),
    ));
    let du = add(def("DU", DeepAttr, &[], vec![], Body::Struct(Fields::Unit)));
    let dt0 = add(def("DT0", DeepAttr, &[], vec![], Body::Struct(Fields::Tuple(vec![]))));
    let dn0 = add(def("DN0", DeepAttr, &[], vec![], Body::Struct(Fields::Named(vec![]))));
    let dc = add(def(
        "DC",
        DeepAttr,
        &[],
        vec![
            ParamDef::Const { name: "B".into(), cty: CTy::Bool, default: None },
            ParamDef::Const { name: "C".into(), cty: CTy::Char, default: None },
            ParamDef::Const { name: "I".into(), cty: CTy::I8, default: Some(CVal::I8(-3)) },
        ],
        Body::Struct(named(&[("s", Ty::String)])),
    ));
    let dr = add(def("DR", DeepAttr, &["C"], vec![], Body::Struct(named(&[("a", p(U32)), ("b", p(U64))]))));
    let dp = add(def("DP", DeepPlain, &[], vec![], Body::Struct(named(&[("a", p(U8))]))));
    let mut dw = def("DW", DeepPlain, &[], vec![tparam("C", &[])], Body::Struct(named(&[("o", Ty::opt(Ty::Param(0))), ("n", p(U16))])));
    dw.where_preds.push((0, vec!["Clone".into()]));
    let dw = add(dw);
    let e20 = add(def("E20", DeepAttr, &[], vec![], Body::Enum((0..20).map(|i| (format!("V{}", i), if i == 7 { Fields::Tuple(vec![p(U8)]) } else { Fields::Unit })).collect())));
    let draw = add(def("DRaw", DeepPlain, &[], vec![], Body::Struct(named(&[("r#type", p(U8)), ("r#loop", Ty::vec(p(U16)))]))));
    let dnest = add(def(
        "DNest",
        DeepPlain,
        &[],
        vec![tparam("A", &[]), tparam("I", &[])],
        Body::Struct(named(&[("a", Ty::Param(0)), ("inner", Ty::adt(d2, vec![a(Ty::Param(1))])), ("e", Ty::adt(de1, vec![]))])),
    ));
    let dbig = add(def(
        "DBig",
        DeepPlain,
        &[],
        vec![tparam("A", &[]), tparam("B", &[]), tparam("C", &[])],
        Body::Struct(named(&[
            ("pre", p(U8)),
            ("a", Ty::Param(0)),
            ("z", Ty::adt(z3, vec![])),
            ("s", Ty::String),
            ("b", Ty::Param(1)),
            ("o", Ty::opt(Ty::vec(p(U64)))),
            ("t", Ty::tup(p(U32), 3)),
            ("c", Ty::Param(2)),
            ("post", p(U16)),
        ])),
    ));

    // ---- subjects: every primitive
    let mut s: Vec<Ty> = ALL_PRIMS.iter().map(|x| p(*x)).collect();
    s.extend([Ty::phantom(p(U8)), Ty::phantom(Ty::vec(Ty::String)), Ty::String, Ty::BoxStr, Ty::RangeFull]);
    // sequences of zero-copy and deep elements
    for e in [p(U8), p(U16), p(U64), p(U128), p(F64), p(Char), p(Bool), p(NzI16), Ty::arr(p(U16), 3), Ty::tup(p(U32), 2), Ty::adt(z1, vec![]), Ty::adt(z3, vec![]), Ty::adt(ze2, vec![])] {
        s.push(Ty::vec(e.clone()));
        s.push(Ty::bslice(e));
    }
    for e in [Ty::String, Ty::vec(p(U8)), Ty::opt(p(U32)), Ty::adt(d1, vec![]), Ty::vec(Ty::vec(p(U16)))] {
        s.push(Ty::vec(e.clone()));
        s.push(Ty::bslice(e));
    }
    // arrays
    s.extend([Ty::arr(p(U8), 1), Ty::arr(p(I32), 2), Ty::arr(p(I64), 2), Ty::arr(p(Usize), 5), Ty::arr(Ty::String, 3), Ty::arr(Ty::String, 0), Ty::arr(Ty::vec(p(U32)), 2), Ty::arr(Ty::arr(p(U16), 2), 2), Ty::arr(Ty::arr(Ty::String, 2), 2)]);
    s.extend([Ty::vec(Ty::arr(Ty::String, 2)), Ty::vec(Ty::vec(Ty::arr(Ty::arr(Ty::String, 2), 1))), Ty::vec(Ty::vec(Ty::arr(Ty::arr(p(Usize), 2), 2)))]);
    // tuples of every arity
    for n in 1..=12 {
        s.push(Ty::tup(if n % 2 == 0 { p(U16) } else { p(I64) }, n));
    }
    s.extend([Ty::tup(Ty::adt(z1, vec![]), 2), Ty::tup(Ty::arr(p(U8), 3), 2), Ty::tup(p(F32), 3)]);
    // options, bounds, control flow
    for e in [p(U8), p(U64), Ty::String, Ty::vec(p(U32)), Ty::adt(z1, vec![]), Ty::opt(p(U16)), Ty::arr(p(U32), 2), p(Unit)] {
        s.push(Ty::opt(e.clone()));
        s.push(Ty::bound(e.clone()));
        s.push(Ty::cf(e.clone(), p(U16)));
        s.push(Ty::cf(Ty::String, e));
    }
    s.push(Ty::opt(Ty::opt(Ty::opt(Ty::vec(Ty::opt(p(U8)))))));
    // ranges
    for k in RangeKind::ALL {
        for i in [U8, U32, Usize, I64, F64, Char] {
            s.push(Ty::range(k, p(i)));
        }
    }
    s.extend([Ty::vec(Ty::range(RangeKind::RangeTo, p(U32))), Ty::vec(Ty::range(RangeKind::RangeToInclusive, p(U64))), Ty::opt(Ty::range(RangeKind::Range, p(U16))), Ty::vec(Ty::opt(Ty::range(RangeKind::RangeInclusive, p(I32))))]);
    // user types
    s.extend([
        Ty::adt(z1, vec![]),
        Ty::adt(z2, vec![]),
        Ty::adt(z3, vec![]),
        Ty::adt(ze1, vec![]),
        Ty::adt(ze2, vec![]),
        Ty::adt(zg, vec![a(p(U32))]),
        Ty::adt(zg, vec![a(p(U64))]),
        Ty::adt(zn, vec![]),
        Ty::adt(zgi, vec![a(p(U16)), cu(2)]),
        Ty::adt(zgi, vec![a(p(F64)), cu(3)]),
        Ty::vec(Ty::adt(zn, vec![])),
        Ty::vec(Ty::adt(zg, vec![a(p(U8))])),
        Ty::adt(d1, vec![]),
        Ty::adt(d2, vec![a(p(U32))]),
        Ty::adt(d2, vec![a(Ty::vec(p(U64)))]),
        Ty::adt(d2, vec![a(Ty::String)]),
        Ty::adt(d2, vec![a(Ty::adt(z1, vec![]))]),
        Ty::adt(d2, vec![a(Ty::vec(Ty::vec(p(U8))))]),
        Ty::adt(d2, vec![a(Ty::bslice(Ty::String))]),
        Ty::adt(d2, vec![a(Ty::arr(Ty::vec(p(U8)), 2))]),
        Ty::adt(d2, vec![a(Ty::opt(Ty::vec(p(U8))))]),
        Ty::adt(d2, vec![a(Ty::tup(p(U8), 2))]),
        Ty::adt(d2, vec![a(Ty::adt(d2, vec![a(Ty::vec(p(U16)))]))]),
        Ty::adt(d3, vec![a(Ty::vec(p(U32))), a(Ty::vec(Ty::String))]),
        Ty::adt(d3, vec![a(p(U8)), a(Ty::adt(z2, vec![]))]),
        Ty::adt(d4, vec![a(p(I32))]),
        Ty::adt(d4, vec![a(Ty::adt(z1, vec![]))]),
        Ty::adt(d5, vec![a(Ty::vec(p(I32)))]),
        Ty::adt(d5, vec![a(Ty::String)]),
        Ty::adt(d6, vec![a(p(Usize)), a(Ty::vec(p(Usize)))]),
        Ty::adt(d7, vec![a(Ty::vec(p(Usize))), cu(2)]),
        Ty::adt(d7, vec![a(Ty::vec(p(U16))), cu(3)]),
        Ty::adt(de1, vec![]),
        Ty::vec(Ty::adt(de1, vec![])),
        Ty::adt(de2, vec![a(Ty::vec(p(U16))), a(Ty::String)]),
        Ty::adt(de2, vec![a(p(U8)), a(Ty::adt(z1, vec![]))]),
        Ty::adt(du, vec![]),
        Ty::adt(dt0, vec![]),
        Ty::adt(dn0, vec![]),
        Ty::adt(dc, vec![Arg::Const(CExpr::Lit(CVal::Bool(true))), Arg::Const(CExpr::Lit(CVal::Char('x'))), Arg::Const(CExpr::Lit(CVal::I8(-3)))]),
        Ty::adt(dr, vec![]),
        Ty::adt(dp, vec![]),
        Ty::vec(Ty::adt(dp, vec![])),
        Ty::adt(dw, vec![a(Ty::String)]),
        Ty::adt(e20, vec![]),
        Ty::adt(draw, vec![]),
        Ty::adt(dnest, vec![a(Ty::vec(p(U32))), a(Ty::vec(p(U16)))]),
        Ty::adt(dbig, vec![a(Ty::vec(p(U64))), a(Ty::String), a(Ty::vec(Ty::adt(z3, vec![])))]),
        Ty::adt(dbig, vec![a(Ty::vec(p(U8))), a(Ty::opt(Ty::vec(p(U128)))), a(Ty::adt(z1, vec![]))]),
    ]);
    u.subjects = s;
    // ---- frozen generated part (LCG with a constant seed; never change)
    let mut x: u64 = 0x5eed_f1ed_0000_0001;
    let choices: Vec<u32> = (0..5000)
        .map(|_| {
            x = x.wrapping_mul(6364136223846793005).wrapping_add(1442695040888963407);
            (x >> 32) as u32
        })
        .collect();
    gen::extend_universe(&mut u, &choices, UniCfg { n_adts: 24, n_builtin_subjects: 30, allow_zst_blocks: false, ..UniCfg::default() });
    u
}


/// Extra hand-written shapes (label "extra"): not frozen, no corpus. Shapes added here were found to
/// matter by the seeded-change campaign (section 9 of DESIGN.md) or by the design's coverage goals:
/// large alignment units, preceding content of every length, single-field deep wrappers of zero-copy
/// aggregates, inclusive ranges and options at ε positions followed by data, a type whose `Drop`
/// reads its borrowed data.
pub fn extra_universe() -> Universe {
    use CopyKind::*;
    use Prim::*;
    let mut u = Universe { label: "extra".into(), adts: vec![], subjects: vec![], pairs: vec![] };
    let mut add = |d: AdtDef| -> usize {
        u.adts.push(d);
        u.adts.len() - 1
    };
    let za = add(def("ZA", Zero, &["C"], vec![], Body::Struct(named(&[("a", p(U8)), ("b", p(U32))]))));
    let z32 = add(def("ZA32", Zero, &["C", "align(32)"], vec![], Body::Struct(named(&[("x", p(U16)), ("y", p(U64))]))));
    let z64 = add(def("ZA64", Zero, &["C", "align(64)"], vec![], Body::Struct(named(&[("x", p(U8))]))));
    let z16 = add(def("ZP16", Zero, &["C"], vec![], Body::Struct(named(&[("lo", p(U64)), ("hi", p(U64))]))));
    let z12 = add(def("ZP12", Zero, &["C"], vec![], Body::Struct(named(&[("a", p(U32)), ("b", p(U32)), ("c", p(U32))]))));
    // preceding content of every length before a block
    let pre = add(def("Pre", DeepPlain, &[], vec![tparam("A", &[]), tparam("B", &[])], Body::Struct(named(&[("a", Ty::Param(0)), ("b", Ty::Param(1))]))));
    // the same with the block at a position that is fully (not ε-) deserialized
    let pre_full = add(def("PreFull", DeepPlain, &[], vec![tparam("B", &[ZC])], Body::Struct(named(&[("a", Ty::String), ("b", Ty::vec(Ty::Param(0))), ("tail", p(U16))]))));
    // single-field deep wrappers of zero-copy aggregates
    let id = add(def("Id", DeepPlain, &[], vec![], Body::Struct(named(&[("bytes", Ty::arr(p(U8), 16))]))));
    let tw = add(def("TupW", DeepAttr, &[], vec![], Body::Struct(Fields::Tuple(vec![Ty::tup(p(U32), 2)]))));
    let zw = add(def("ZW", DeepPlain, &[], vec![], Body::Struct(named(&[("z", Ty::adt(za, vec![]))]))));
    let g1 = add(def("G1", DeepPlain, &[], vec![tparam("A", &[])], Body::Struct(named(&[("a", Ty::Param(0))]))));
    // ε positions followed by data
    let tail = add(def("Tail", DeepPlain, &[], vec![tparam("A", &[])], Body::Struct(named(&[("a", Ty::Param(0)), ("t1", p(U8)), ("t2", p(U64)), ("t3", Ty::String)]))));
    let etail = add(def(
        "ETail",
        DeepPlain,
        &[],
        vec![tparam("A", &[]), tparam("B", &[])],
        Body::Enum(vec![("One".into(), Fields::Tuple(vec![Ty::Param(0), p(U32)])), ("Two".into(), named(&[("x", Ty::Param(1)), ("y", Ty::Param(0)), ("z", p(U8))])), ("Nil".into(), Fields::Unit)]),
    ));
    // a type whose Drop reads the data it borrows (see render.rs: definitions named DropAudit get a Drop impl)
    let audit = add(def("DropAudit", DeepPlain, &[], vec![tparam("A", &["AsRef<[u64]>"])], Body::Struct(named(&[("a", Ty::Param(0)), ("n", p(U32))]))));

    // definitions emitted through `macro_rules!` with `$f:ty` fragments (see render.rs: names starting with `Mac`)
    let mac_s = add(def("MacS", DeepPlain, &[], vec![tparam("A", &[]), tparam("B", &[])], Body::Struct(named(&[("a", Ty::Param(0)), ("n", p(U32)), ("b", Ty::vec(Ty::adt(za, vec![]))), ("c", Ty::Param(1))]))));
    let mac_t = add(def("MacT", DeepAttr, &[], vec![tparam("A", &[])], Body::Struct(Fields::Tuple(vec![Ty::Param(0), Ty::String, Ty::opt(Ty::vec(p(U16)))]))));
    let mac_e = add(def(
        "MacE",
        DeepPlain,
        &[],
        vec![tparam("A", &[]), tparam("B", &[])],
        Body::Enum(vec![("One".into(), Fields::Tuple(vec![Ty::Param(0), p(U16)])), ("Two".into(), named(&[("x", Ty::Param(1)), ("y", Ty::Param(0))])), ("Nil".into(), Fields::Unit)]),
    ));
    let mac_z = add(def("MacZ", Zero, &["C"], vec![tparam("A", &[ZC])], Body::Struct(named(&[("x", Ty::Param(0)), ("y", p(U16))]))));

    // an enum with more variants than a byte can index, and deep-copy enums with a primitive representation
    let wide_vars: Vec<(String, Fields)> = (0..300)
        .map(|i| {
            let f = match i % 4 {
                0 => Fields::Unit,
                1 => Fields::Tuple(vec![p(U32)]),
                2 => named(&[("x", p(U8)), ("s", Ty::String)]),
                _ => Fields::Tuple(vec![Ty::vec(p(U16)), p(U64)]),
            };
            (format!("V{}", i), f)
        })
        .collect();
    let wide_e = add(def("Wide300", DeepPlain, &[], vec![], Body::Enum(wide_vars)));
    let rep8 = add(def("RepU8", DeepPlain, &["u8"], vec![tparam("A", &[])], Body::Enum(vec![("A".into(), Fields::Tuple(vec![Ty::Param(0)])), ("B".into(), Fields::Unit), ("C".into(), named(&[("n", p(U64)), ("s", Ty::String)]))])));
    let rep16 = add(def("RepU16", DeepAttr, &["u16"], vec![], Body::Enum(vec![("Lo".into(), Fields::Unit), ("Hi".into(), Fields::Tuple(vec![Ty::vec(p(U32))])), ("Mid".into(), Fields::Tuple(vec![p(U8), p(U8)]))])));
    let rep32 = add(def("RepCU32", DeepPlain, &["C, u32"], vec![], Body::Enum(vec![("X".into(), Fields::Tuple(vec![p(U16)])), ("Y".into(), named(&[("v", Ty::String)])), ("Z".into(), Fields::Unit)])));

    // identifiers outside ASCII, and names that are prefixes of each other
    let uni_s = add(def("Größe", DeepPlain, &[], vec![tparam("A", &[])], Body::Struct(named(&[("länge", p(U32)), ("名前", Ty::String), ("données", Ty::Param(0)), ("a", p(U8)), ("ab", p(U8)), ("abc", Ty::vec(p(U16)))]))));
    let uni_e = add(def("Époque", DeepAttr, &[], vec![], Body::Enum(vec![("Été".into(), Fields::Tuple(vec![p(U16)])), ("Hiver".into(), named(&[("größe", Ty::vec(p(U8)))])), ("Éténdue".into(), Fields::Unit)])));
    let uni_z = add(def("Zäh", Zero, &["C"], vec![], Body::Struct(named(&[("ä", p(U16)), ("äö", p(U64))]))));
    // more than 64 fields
    let many: Vec<(String, Ty)> = (0..70).map(|i| (format!("f{}", i), match i % 5 { 0 => p(U8), 1 => p(U64), 2 => Ty::String, 3 => Ty::vec(p(U16)), _ => Ty::opt(p(U32)) })).collect();
    let many_d = add(def("Many70", DeepPlain, &[], vec![], Body::Struct(Fields::Named(many))));
    let manyz: Vec<(String, Ty)> = (0..70).map(|i| (format!("z{}", i), match i % 4 { 0 => p(U8), 1 => p(U64), 2 => p(U16), _ => Ty::arr(p(U8), 3) })).collect();
    let many_z = add(def("ManyZ70", Zero, &["C"], vec![], Body::Struct(Fields::Named(manyz))));
    // a zero-copy structure with a field at an offset beyond 2^16
    let far_z = add(def("FarZ", Zero, &["C"], vec![], Body::Struct(named(&[("head", p(U8)), ("bulk", Ty::arr(p(U8), 66_000)), ("tail", p(U32)), ("end", p(U16))]))));

    // explicit discriminants (the format's tag stays the position of the variant)
    let disc = add(def("Disc", DeepPlain, &[], vec![], Body::Enum(vec![("Low = 1".into(), Fields::Unit), ("Mid".into(), Fields::Unit), ("High = 7".into(), Fields::Unit), ("Top".into(), Fields::Unit)])));
    let disc_r = add(def("DiscR", DeepAttr, &["u8"], vec![tparam("A", &[])], Body::Enum(vec![("Ping = 2".into(), Fields::Unit), ("Data".into(), Fields::Tuple(vec![Ty::Param(0), p(U32)])), ("Text".into(), named(&[("s", Ty::String)])), ("Pong = 9".into(), Fields::Unit)])));
    // field names that generated code is likely to use for its own locals
    let hyg = add(def("Hyg", DeepPlain, &[], vec![tparam("A", &[])], Body::Enum(vec![("S".into(), named(&[("tag", p(U8)), ("payload", p(U32)), ("res", Ty::Param(0)), ("hasher", p(U16))])), ("T".into(), named(&[("offset_of", Ty::String), ("len", p(U8)), ("data", Ty::vec(p(U8)))])), ("U".into(), Fields::Named(vec![]))])));

    let mut s: Vec<Ty> = vec![];
    s.extend([Ty::adt(disc, vec![]), Ty::vec(Ty::adt(disc, vec![])), Ty::adt(disc_r, vec![a(Ty::vec(p(U64)))]), Ty::vec(Ty::adt(disc_r, vec![a(p(U8))]))]);
    s.extend([Ty::adt(hyg, vec![a(Ty::vec(p(U32)))]), Ty::vec(Ty::adt(hyg, vec![a(p(U8))]))]);
    s.extend([Ty::adt(uni_s, vec![a(Ty::vec(p(U64)))]), Ty::vec(Ty::adt(uni_s, vec![a(Ty::adt(uni_z, vec![]))])), Ty::adt(uni_e, vec![]), Ty::vec(Ty::adt(uni_e, vec![])), Ty::vec(Ty::adt(uni_z, vec![])), Ty::adt(uni_z, vec![])]);
    s.extend([Ty::adt(many_d, vec![]), Ty::adt(many_z, vec![]), Ty::vec(Ty::adt(many_z, vec![])), Ty::adt(far_z, vec![]), Ty::adt(g1, vec![a(Ty::vec(Ty::adt(far_z, vec![])))])]);
    s.extend([Ty::adt(wide_e, vec![]), Ty::vec(Ty::adt(wide_e, vec![])), Ty::opt(Ty::adt(wide_e, vec![]))]);
    s.extend([Ty::adt(rep8, vec![a(Ty::vec(p(U64)))]), Ty::adt(rep8, vec![a(p(U8))]), Ty::vec(Ty::adt(rep8, vec![a(Ty::String)])), Ty::adt(rep16, vec![]), Ty::vec(Ty::adt(rep16, vec![])), Ty::adt(rep32, vec![]), Ty::adt(g1, vec![a(Ty::adt(rep32, vec![]))])]);
    // packed zero-copy structures: the size is not a multiple of the alignment unit
    let pk4 = add(def("ZPk4", Zero, &["C", "packed(4)"], vec![], Body::Struct(named(&[("a", p(U64)), ("b", p(U32))]))));
    let pk1 = add(def("ZPk1", Zero, &["C", "packed"], vec![], Body::Struct(named(&[("a", p(U8)), ("b", p(U64)), ("c", p(U16))]))));
    for z in [pk4, pk1] {
        let t = Ty::adt(z, vec![]);
        s.extend([t.clone(), Ty::vec(t.clone()), Ty::bslice(t.clone()), Ty::arr(t.clone(), 3), Ty::adt(pre, vec![a(Ty::String), a(Ty::vec(t.clone()))]), Ty::adt(tail, vec![a(Ty::vec(t.clone()))]), Ty::adt(g1, vec![a(t)])]);
    }
    // items of more than 4 KiB in sequences
    s.extend([Ty::vec(Ty::arr(p(U64), 513)), Ty::bslice(Ty::arr(p(U8), 4097))]);
    for (x, y) in [(Ty::vec(p(U64)), p(U8)), (Ty::String, p(U32)), (Ty::bslice(Ty::adt(za, vec![])), Ty::adt(za, vec![])), (Ty::vec(Ty::String), Ty::tup(p(U16), 2))] {
        s.push(Ty::adt(mac_s, vec![a(x.clone()), a(y.clone())]));
        s.push(Ty::adt(mac_t, vec![a(x.clone())]));
        s.push(Ty::adt(mac_e, vec![a(x.clone()), a(y.clone())]));
        s.push(Ty::adt(mac_e, vec![a(y.clone()), a(x.clone())]));
        s.push(Ty::vec(Ty::adt(mac_z, vec![a(y.clone())])));
        s.push(Ty::adt(mac_s, vec![a(Ty::adt(mac_t, vec![a(x)])), a(Ty::adt(mac_z, vec![a(y)]))]));
    }
    let blocks = [
        Ty::vec(Ty::adt(z64, vec![])),
        Ty::adt(z32, vec![]),
        Ty::vec(Ty::adt(z32, vec![])),
        Ty::vec(p(U64)),
        Ty::arr(p(U128), 2),
        Ty::vec(p(U16)),
        Ty::arr(Ty::adt(z16, vec![]), 3),
        Ty::arr(Ty::adt(z12, vec![]), 2),
        Ty::arr(Ty::arr(p(U32), 2), 3),
        Ty::tup(p(U64), 2),
        Ty::bslice(p(U32)),
        Ty::adt(z64, vec![]),
    ];
    for b in &blocks {
        s.push(Ty::adt(pre, vec![a(Ty::String), a(b.clone())]));
    }
    s.push(Ty::adt(pre, vec![a(Ty::vec(p(U8))), a(Ty::vec(p(U64)))]));
    // blocks whose alignment unit (the size of the range) is larger than their `align_of`
    let wide = [
        Ty::vec(Ty::range(RangeKind::RangeTo, Ty::tup(p(U32), 2))),
        Ty::bslice(Ty::range(RangeKind::RangeToInclusive, Ty::tup(p(U16), 2))),
        Ty::vec(Ty::range(RangeKind::RangeTo, Ty::arr(p(U16), 2))),
        Ty::vec(Ty::range(RangeKind::RangeTo, Ty::tup(p(U8), 2))),
        Ty::bslice(Ty::range(RangeKind::RangeToInclusive, Ty::arr(p(U32), 4))),
    ];
    for b in &wide {
        s.push(Ty::adt(pre, vec![a(Ty::String), a(b.clone())]));
        s.push(Ty::adt(tail, vec![a(b.clone())]));
        s.push(b.clone());
    }
    s.push(Ty::adt(pre_full, vec![a(Ty::range(RangeKind::RangeTo, Ty::tup(p(U32), 2)))]));
    s.push(Ty::adt(pre, vec![a(Ty::vec(p(U16))), a(Ty::vec(p(U64)))]));
    s.push(Ty::adt(pre, vec![a(Ty::vec(p(U64))), a(Ty::vec(p(U16)))]));
    s.push(Ty::adt(pre, vec![a(Ty::String), a(Ty::adt(pre, vec![a(Ty::vec(p(U16))), a(Ty::vec(p(U64)))]))]));
    for e in [p(U64), p(U32), Ty::adt(z64, vec![]), Ty::adt(z32, vec![]), Ty::adt(z16, vec![]), Ty::arr(p(U16), 3)] {
        s.push(Ty::adt(pre_full, vec![a(e)]));
    }
    for t in [Ty::adt(id, vec![]), Ty::adt(tw, vec![]), Ty::adt(zw, vec![]), Ty::adt(g1, vec![a(Ty::arr(p(U64), 2))]), Ty::adt(g1, vec![a(Ty::adt(za, vec![]))])] {
        s.push(t.clone());
        s.push(Ty::vec(t.clone()));
        s.push(Ty::bslice(t.clone()));
        s.push(Ty::arr(t, 3));
    }
    for k in RangeKind::ALL {
        s.push(Ty::adt(tail, vec![a(Ty::range(k, p(U32)))]));
        s.push(Ty::adt(tail, vec![a(Ty::opt(Ty::range(k, p(I64))))]));
    }
    for x in [Ty::opt(p(U8)), Ty::opt(Ty::vec(p(U64))), Ty::bound(p(U16)), Ty::cf(p(U8), Ty::String), Ty::vec(p(U64)), Ty::arr(Ty::opt(p(U32)), 2), Ty::vec(Ty::vec(p(U32))), Ty::arr(Ty::arr(p(U32), 2), 3), Ty::arr(Ty::adt(z16, vec![]), 2)] {
        s.push(Ty::adt(tail, vec![a(x.clone())]));
        s.push(Ty::adt(etail, vec![a(x.clone()), a(Ty::vec(p(U16)))]));
    }
    s.push(Ty::adt(audit, vec![a(Ty::vec(p(U64)))]));
    s.push(Ty::adt(audit, vec![a(Ty::bslice(p(U64)))]));
    s.push(Ty::vec(Ty::adt(audit, vec![a(Ty::vec(p(U64)))])));
    // very long type names (the header carries the name; nothing may depend on its length)
    let mut deep = Ty::vec(p(U16));
    for _ in 0..9 {
        deep = Ty::opt(Ty::vec(deep));
    }
    s.push(deep);
    s.push(Ty::vec(Ty::tup(Ty::range(RangeKind::RangeToInclusive, p(I128)), 12)));
    let mut nest = Ty::adt(g1, vec![a(Ty::vec(p(U8)))]);
    for _ in 0..8 {
        nest = Ty::adt(pre, vec![a(Ty::String), a(nest)]);
    }
    s.push(nest);
    // sequences of deep-copy items that take no byte in the stream
    let du = add(def("DU0", DeepAttr, &[], vec![], Body::Struct(Fields::Unit)));
    let dph = add(def("DPh", DeepAttr, &[], vec![tparam("P", &[])], Body::Struct(named(&[("m", Ty::phantom(Ty::Param(0)))]))));
    for t in [Ty::adt(du, vec![]), Ty::adt(dph, vec![a(p(U64))]), Ty::arr(Ty::String, 0), Ty::arr(Ty::adt(du, vec![]), 2)] {
        s.push(Ty::vec(t.clone()));
        s.push(Ty::bslice(t.clone()));
        s.push(Ty::adt(tail, vec![a(Ty::vec(t.clone()))]));
        s.push(Ty::adt(g1, vec![a(Ty::vec(t))]));
    }
    // big payloads (values of more than a mebibyte are added by `sweep_vals` for exactly these subjects)
    s.push(Ty::adt(g1, vec![a(Ty::vec(p(U64)))]));
    s.push(Ty::adt(g1, vec![a(Ty::vec(Ty::opt(Ty::vec(p(U32)))))]));
    s.push(Ty::adt(g1, vec![a(Ty::vec(Ty::String))]));
    s.push(Ty::adt(tail, vec![a(Ty::String)]));
    s.push(Ty::adt(tail, vec![a(Ty::bslice(p(U32)))]));
    let mut seen = std::collections::BTreeSet::new();
    s.retain(|t| seen.insert(t.clone()));
    u.subjects = s;
    // pairs of different types with the same `type_name` (anonymous const blocks): anything keyed by the name of
    // a type instead of its structure (a cache, a registry) confuses them
    let choices: Vec<u32> = (0..400u32).map(|i| i.wrapping_mul(2654435761).rotate_left(7) ^ 0x9e37_79b9).collect();
    crate::mutate::add_twins(&mut u, &mut gen::Src::new(&choices), 4);
    crate::mutate::add_unit_twins(&mut u);
    u.pairs.clear();
    u
}


/// Zero-sized zero-copy data in blocks (label "zst"): the O3/O4 class of DESIGN.md section 2.9.
pub fn zst_universe() -> Universe {
    use CopyKind::*;
    use Prim::*;
    let mut u = Universe { label: "zst".into(), adts: vec![], subjects: vec![], pairs: vec![] };
    let mut add = |d: AdtDef| -> usize {
        u.adts.push(d);
        u.adts.len() - 1
    };
    let z0 = add(def("Z0", Zero, &["C"], vec![], Body::Struct(Fields::Unit)));
    let z0a = add(def("Z0A", Zero, &["C", "align(8)"], vec![], Body::Struct(Fields::Named(vec![]))));
    let zp = add(def("ZP", Zero, &["C"], vec![], Body::Struct(named(&[("p", Ty::phantom(Ty::String)), ("u", p(Unit)), ("f", Ty::RangeFull), ("e", Ty::arr(p(U64), 0))]))));
    let g = add(def("G", DeepPlain, &[], vec![tparam("A", &[])], Body::Struct(named(&[("pre", p(U8)), ("a", Ty::Param(0)), ("post", p(U32))]))));
    let zg = add(def("ZH", Zero, &["C"], vec![], Body::Struct(named(&[("h", p(U16)), ("z", Ty::adt(z0, vec![])), ("t", p(U8))]))));
    let mut s: Vec<Ty> = vec![];
    let zsts = [p(Unit), Ty::phantom(p(U8)), Ty::RangeFull, Ty::arr(p(U8), 0), Ty::arr(p(U32), 0), Ty::adt(z0, vec![]), Ty::adt(z0a, vec![]), Ty::adt(zp, vec![]), Ty::arr(Ty::adt(z0, vec![]), 2), Ty::tup(p(Unit), 2), Ty::arr(p(Unit), 3)];
    for z in &zsts {
        s.push(z.clone());
        s.push(Ty::vec(z.clone()));
        s.push(Ty::bslice(z.clone()));
        s.push(Ty::arr(z.clone(), 2));
        s.push(Ty::opt(z.clone()));
        s.push(Ty::adt(g, vec![a(z.clone())]));
        s.push(Ty::adt(g, vec![a(Ty::vec(z.clone()))]));
    }
    // deep-copy types that take no memory and still write bytes: a one-variant enum (a tag per item), a structure
    // holding an over-aligned empty array (padding per item); in sequences that are followed by more data
    let one = add(def("OneVariant", DeepPlain, &[], vec![], Body::Enum(vec![("Only".into(), Fields::Unit)])));
    let pad0 = add(def("PadOnly", DeepPlain, &[], vec![], Body::Struct(named(&[("e", Ty::arr(p(U64), 0)), ("u", p(Unit))]))));
    for z in [Ty::adt(one, vec![]), Ty::adt(pad0, vec![])] {
        s.push(z.clone());
        s.push(Ty::vec(z.clone()));
        s.push(Ty::bslice(z.clone()));
        s.push(Ty::adt(g, vec![a(Ty::vec(z.clone()))]));
        s.push(Ty::adt(g, vec![a(Ty::bslice(z.clone()))]));
        s.push(Ty::adt(g, vec![a(Ty::arr(z.clone(), 3))]));
        s.push(Ty::vec(Ty::vec(z)));
    }
    s.push(Ty::tup(Ty::adt(z0, vec![]), 3));
    s.push(Ty::adt(zg, vec![]));
    s.push(Ty::vec(Ty::adt(zg, vec![])));
    s.push(Ty::vec(Ty::arr(p(U32), 0)));
    s.push(Ty::vec(Ty::vec(Ty::adt(z0, vec![]))));
    let mut seen = std::collections::BTreeSet::new();
    s.retain(|t| seen.insert(t.clone()));
    u.subjects = s;
    u
}


/// Zero-copy types whose alignment unit exceeds the 64 bytes the loaders support (label "wide"): used by the
/// in-memory properties only.
pub fn wide_universe() -> Universe {
    use CopyKind::*;
    use Prim::*;
    let mut u = Universe { label: "wide".into(), adts: vec![], subjects: vec![], pairs: vec![] };
    let mut add = |d: AdtDef| -> usize {
        u.adts.push(d);
        u.adts.len() - 1
    };
    let z128 = add(def("ZA128", Zero, &["C", "align(128)"], vec![], Body::Struct(named(&[("x", p(U8)), ("y", p(U32))]))));
    let z256 = add(def("ZA256", Zero, &["C", "align(256)"], vec![], Body::Struct(named(&[("x", p(U16))]))));
    let z8k = add(def("ZA8192", Zero, &["C", "align(8192)"], vec![], Body::Struct(named(&[("x", p(U32)), ("y", p(U8))]))));
    let pre = add(def("Pre", DeepPlain, &[], vec![tparam("A", &[]), tparam("B", &[])], Body::Struct(named(&[("a", Ty::Param(0)), ("b", Ty::Param(1))]))));
    let tail = add(def("Tail", DeepPlain, &[], vec![tparam("A", &[])], Body::Struct(named(&[("a", Ty::Param(0)), ("t1", p(U8)), ("t2", p(U64)), ("t3", Ty::String)]))));
    let mut s = vec![];
    for z in [z128, z256, z8k] {
        let t = Ty::adt(z, vec![]);
        s.push(t.clone());
        s.push(Ty::vec(t.clone()));
        s.push(Ty::bslice(t.clone()));
        s.push(Ty::arr(t.clone(), 2));
        s.push(Ty::adt(pre, vec![a(Ty::String), a(Ty::vec(t.clone()))]));
        s.push(Ty::adt(pre, vec![a(Ty::String), a(t.clone())]));
        s.push(Ty::adt(tail, vec![a(Ty::vec(t.clone()))]));
        s.push(Ty::adt(tail, vec![a(t.clone())]));
        s.push(Ty::opt(Ty::vec(t)));
    }
    s.push(Ty::adt(pre, vec![a(Ty::vec(Ty::adt(z128, vec![]))), a(Ty::vec(Ty::adt(z256, vec![])))]));
    u.subjects = s;
    u
}

/// Very deep nesting (label "deep"): 36 levels of built-in wrappers, and generic structures with multi-byte names
/// nested 25 times (type names of several kilobytes). Kept apart from `extra`: with `#[inline(always)]` on the
/// recursive serialization methods, a change of the library's call graph can make the *compiler* need tens of
/// gigabytes for such types; that must not take the other shapes down with it.
pub fn deep_universe() -> Universe {
    use CopyKind::*;
    use Prim::*;
    let mut u = Universe { label: "deep".into(), adts: vec![], subjects: vec![], pairs: vec![] };
    let mut add = |d: AdtDef| -> usize {
        u.adts.push(d);
        u.adts.len() - 1
    };
    // type names of several kilobytes made of multi-byte characters: any byte offset at which somebody cuts such a
    // name (64, 1024, 4096, ...) falls inside a character for most of the four variants (shifted by 0..3 bytes)
    let cjk: String = "統一資料構造体型名識別子試験用定義記号列長文字種類別".chars().cycle().take(60).collect();
    let cjk_defs: Vec<usize> = ["", "A", "AB", "ABC"]
        .iter()
        .map(|pre| add(def(&format!("{}{}", pre, cjk), DeepPlain, &[], vec![tparam("T", &[])], Body::Struct(named(&[("値", Ty::Param(0))])))))
        .collect();
    let mut s: Vec<Ty> = vec![];
    for d0 in &cjk_defs {
        let mut t = Ty::vec(p(U8));
        for _ in 0..24 {
            t = Ty::adt(cjk_defs[0], vec![a(t)]);
        }
        s.push(Ty::adt(*d0, vec![a(t)]));
    }
    {
        let mut t = p(U8);
        for k in 0..36 {
            t = if k % 3 == 2 { Ty::vec(t) } else { Ty::opt(t) };
        }
        s.push(t);
    }
    u.subjects = s;
    u
}

/// Types that mention arrays of more than 2^32 items, without ever holding a value of them, next to their small
/// counterparts (label "huge"; pairs for C04). Kept apart from the other universes: compiling programs that name
/// such types is the one place where a change in the library can make the *compiler* run out of memory.
pub fn huge_universe() -> Universe {
    use Prim::*;
    let mut u = Universe { label: "huge".into(), adts: vec![], subjects: vec![], pairs: vec![] };
    let big = (1usize << 32) + 2;
    u.subjects = vec![
        Ty::phantom(Ty::arr(p(U8), 2)),
        Ty::phantom(Ty::arr(p(U8), big)),
        Ty::arr(Ty::arr(p(U16), 1), 0),
        Ty::arr(Ty::arr(p(U16), big - 1), 0),
        Ty::vec(Ty::phantom(Ty::arr(p(U32), 3))),
        Ty::vec(Ty::phantom(Ty::arr(p(U32), big + 1))),
    ];
    u.pairs = vec![(0, 1), (2, 3), (4, 5)];
    u
}

/// Ranges over an index type whose size is not a power of two (label "odd"): the alignment unit the crate
/// assigns to them is `size_of::<Self>()`, e.g. 3 for `RangeTo<[u8; 3]>` (O14). Only C07 uses this universe.
pub fn odd_universe() -> Universe {
    use Prim::*;
    let mut u = Universe { label: "odd".into(), adts: vec![], subjects: vec![], pairs: vec![] };
    let idx = [Ty::arr(p(U8), 3), Ty::tup(p(U16), 3), Ty::arr(p(U32), 3), Ty::arr(p(U8), 5)];
    for i in idx {
        for k in [RangeKind::RangeTo, RangeKind::RangeToInclusive] {
            let r = Ty::range(k, i.clone());
            u.subjects.push(Ty::vec(r.clone()));
            u.subjects.push(Ty::arr(r.clone(), 2));
        }
    }
    u
}
