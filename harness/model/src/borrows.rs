//! Record of the borrows found inside an ε-copy result (pre-order).

#[derive(Clone, Debug, PartialEq, Eq)]
pub struct Borrow {
    pub ptr: usize,
    /// length in bytes
    pub len: usize,
    /// native alignment of the element / aggregate type
    pub align: usize,
}

#[derive(Clone, Debug, Default, PartialEq, Eq)]
pub struct Borrows(pub Vec<Borrow>);

impl Borrows {
    pub fn push(&mut self, ptr: usize, len: usize, align: usize) {
        self.0.push(Borrow { ptr, len, align });
    }
}
