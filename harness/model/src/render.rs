//! Rendering of model types, definitions and whole subject programs to Rust source.

use crate::format::Model;
use crate::ty::*;
use std::collections::BTreeMap;
use std::fmt::Write as _;

/// Root module path of the generated definitions inside the subject crate.
pub const ROOT: &str = "crate::uni";

pub fn adt_path(u: &Universe, i: usize, args: &[String]) -> String {
    let d = &u.adts[i];
    let mut s = if d.module.is_empty() { format!("{}::{}", ROOT, d.name) } else { format!("{}::{}::{}", ROOT, d.module, d.name) };
    if !args.is_empty() {
        s.push('<');
        s.push_str(&args.join(", "));
        s.push('>');
    }
    s
}

fn cexpr(c: &CExpr, ctx: Option<&AdtDef>) -> String {
    match c {
        CExpr::Lit(v) => v.rust(),
        CExpr::Param(i) => ctx.expect("const parameter outside a definition").params[*i].name().to_string(),
    }
}

/// Render a closed type.
pub fn ty(u: &Universe, t: &Ty) -> String {
    ty_in(u, t, None)
}

/// Render a type, resolving parameters against `ctx`.
pub fn ty_in(u: &Universe, t: &Ty, ctx: Option<&AdtDef>) -> String {
    let r = |t: &Ty| ty_in(u, t, ctx);
    match t {
        Ty::Prim(p) => p.rust_path(),
        Ty::Phantom(e) => format!("core::marker::PhantomData<{}>", r(e)),
        Ty::String => "String".into(),
        Ty::BoxStr => "Box<str>".into(),
        Ty::Vec(e) => format!("Vec<{}>", r(e)),
        Ty::BoxSlice(e) => format!("Box<[{}]>", r(e)),
        Ty::Array(e, n) => format!("[{}; {}]", r(e), cexpr(n, ctx)),
        Ty::Tuple(e, n) => {
            let x = r(e);
            let mut s = String::from("(");
            for _ in 0..*n {
                s.push_str(&x);
                s.push_str(", ");
            }
            s.push(')');
            s
        }
        Ty::Option(e) => format!("Option<{}>", r(e)),
        Ty::Bound(e) => format!("core::ops::Bound<{}>", r(e)),
        Ty::ControlFlow(b, c) => format!("core::ops::ControlFlow<{}, {}>", r(b), r(c)),
        Ty::Range(k, e) => format!("core::ops::{}<{}>", k.rust(), r(e)),
        Ty::RangeFull => "core::ops::RangeFull".into(),
        Ty::Adt(i, args) => {
            let a: Vec<String> = args
                .iter()
                .map(|a| match a {
                    Arg::Ty(t) => r(t),
                    Arg::Const(c) => cexpr(c, ctx),
                })
                .collect();
            adt_path(u, *i, &a)
        }
        Ty::Param(i) => ctx.expect("type parameter outside a definition").params[*i].name().to_string(),
    }
}

thread_local! {
    /// When set, field types are rendered as `$f<k>` macro fragments and collected here (definitions whose name
    /// starts with `Mac` are emitted through a `macro_rules!` with `$f:ty` fragments, so that the derive macro
    /// sees each field type wrapped in a `None`-delimited group).
    static MAC_FIELDS: std::cell::RefCell<Option<Vec<String>>> = const { std::cell::RefCell::new(None) };
}

fn field_ty(u: &Universe, d: &AdtDef, t: &Ty) -> String {
    let src = ty_in(u, t, Some(d));
    MAC_FIELDS.with(|m| match m.borrow_mut().as_mut() {
        Some(v) => {
            v.push(src.clone());
            format!("$f{}", v.len() - 1)
        }
        None => src,
    })
}

/// Definitions rendered through a `macro_rules!` with `ty` fragments.
pub fn is_macro_made(d: &AdtDef) -> bool {
    d.name.starts_with("Mac")
}

fn fields_src(u: &Universe, d: &AdtDef, f: &Fields, vis: &str) -> String {
    match f {
        Fields::Unit => String::new(),
        Fields::Tuple(v) => {
            let mut s = String::from("(");
            for t in v {
                let _ = write!(s, "{}{}, ", vis, field_ty(u, d, t));
            }
            s.push(')');
            s
        }
        Fields::Named(v) => {
            let mut s = String::from(" { ");
            for (n, t) in v {
                let _ = write!(s, "{}{}: {}, ", vis, n, field_ty(u, d, t));
            }
            s.push('}');
            s
        }
    }
}

/// Rust source of one definition.
pub fn adt_def(u: &Universe, d: &AdtDef) -> String {
    if is_macro_made(d) && MAC_FIELDS.with(|m| m.borrow().is_none()) {
        MAC_FIELDS.with(|m| *m.borrow_mut() = Some(vec![]));
        let body = adt_def(u, d);
        let tys = MAC_FIELDS.with(|m| m.borrow_mut().take()).unwrap_or_default();
        let pats: Vec<String> = (0..tys.len()).map(|k| format!("$f{}:ty", k)).collect();
        return format!("macro_rules! mac_def_{n} {{\n    ({pats}) => {{\n{body}    }};\n}}\nmac_def_{n}!({tys});\n", n = d.name, pats = pats.join(", "), body = body, tys = tys.join(", "));
    }
    let mut s = String::new();
    let copy = if d.is_zero() { ", Copy" } else { "" };
    // the attributes appear in one of four arrangements (chosen by the name, so that a definition is always
    // rendered in the same way): the macro must not depend on their position or on what stands between them
    let style = crate::mix_seed(&["attr-style", &d.name, &d.module], 0) % 4;
    let derive = format!("#[derive(epserde::Epserde, Clone, Debug{})]\n", copy);
    let mut reprs = String::new();
    for (k, r) in d.reprs.iter().enumerate() {
        if style == 3 && k > 0 {
            reprs.push_str("#[allow(dead_code)]\n");
        }
        let _ = writeln!(reprs, "#[repr({})]", r);
    }
    let kind = match d.copy {
        CopyKind::Zero => "#[zero_copy]\n",
        CopyKind::DeepAttr => "#[deep_copy]\n",
        CopyKind::DeepPlain => "",
    };
    match style {
        0 => {
            s.push_str(&derive);
            s.push_str(&reprs);
            s.push_str(kind);
        }
        1 => {
            s.push_str(&derive);
            s.push_str(kind);
            s.push_str(&reprs);
        }
        2 => {
            s.push_str(&reprs);
            s.push_str(&derive);
            s.push_str(kind);
        }
        _ => {
            s.push_str("/// Generated definition.\n");
            s.push_str(&derive);
            s.push_str("#[allow(dead_code, clippy::all)]\n");
            s.push_str(&reprs);
            s.push_str("/// (attributes interleaved with comments)\n");
            s.push_str(kind);
        }
    }
    let kw = if matches!(d.body, Body::Struct(_)) { "struct" } else { "enum" };
    let _ = write!(s, "pub {} {}", kw, d.name);
    if !d.params.is_empty() {
        s.push('<');
        for p in &d.params {
            match p {
                ParamDef::Type { name, bounds, default } => {
                    s.push_str(name);
                    if !bounds.is_empty() {
                        let _ = write!(s, ": {}", bounds.join(" + "));
                    }
                    if let Some(t) = default {
                        let _ = write!(s, " = {}", ty_in(u, t, Some(d)));
                    }
                }
                ParamDef::Const { name, cty, default } => {
                    let _ = write!(s, "const {}: {}", name, cty.rust());
                    if let Some(v) = default {
                        let _ = write!(s, " = {}", v.rust());
                    }
                }
            }
            s.push_str(", ");
        }
        s.push('>');
    }
    let wh = if d.where_preds.is_empty() {
        String::new()
    } else {
        let mut w = String::from(" where ");
        for (p, b) in &d.where_preds {
            let _ = write!(w, "{}: {}, ", d.params[*p].name(), b.join(" + "));
        }
        w
    };
    match &d.body {
        Body::Struct(f) => match f {
            Fields::Unit => {
                let _ = writeln!(s, "{};", wh);
            }
            Fields::Tuple(_) => {
                let _ = writeln!(s, "{}{};", fields_src(u, d, f, "pub "), wh);
            }
            Fields::Named(_) => {
                let _ = writeln!(s, "{}{}", wh, fields_src(u, d, f, "pub "));
            }
        },
        Body::Enum(vs) => {
            let _ = writeln!(s, "{} {{", wh);
            // half of the enums that have a unit variant also derive `Default` and mark that variant `#[default]`
            // (an attribute that belongs to another derive and must not change anything here)
            let dflt = if crate::mix_seed(&["default-attr", &d.name, &d.module], 0) % 2 == 0 { vs.iter().position(|(_, f)| matches!(f, Fields::Unit)) } else { None };
            for (k, (n, f)) in vs.iter().enumerate() {
                if dflt == Some(k) {
                    s.push_str("    #[default]\n");
                }
                let _ = writeln!(s, "    {}{},", n, fields_src(u, d, f, ""));
            }
            s.push_str("}\n");
            if dflt.is_some() {
                s = s.replacen("#[derive(epserde::Epserde, Clone, Debug", "#[derive(epserde::Epserde, Default, Clone, Debug", 1);
            }
        }
    }
    if d.name == "DropAudit" {
        // a user type whose safe Drop reads the data it holds (borrowed, in an ε-copy result)
        s.push_str("impl<A: AsRef<[u64]>> Drop for DropAudit<A> {\n    fn drop(&mut self) {\n        voracles::audit::record(self.a.as_ref());\n    }\n}\n");
    }
    s
}

/// Definitions whose module starts with `twin` are rendered inside anonymous `const _: () = { .. }` blocks, so
/// that two *different* types end up with the *same* `core::any::type_name` (`crate::uni::_::T`).
pub fn is_twin(d: &AdtDef) -> bool {
    d.module.starts_with("twin")
}

fn is_twin_ty(u: &Universe, t: &Ty) -> bool {
    matches!(t, Ty::Adt(i, _) if is_twin(&u.adts[*i]))
}

/// All definitions, grouped by module, as the contents of `mod uni`.
pub fn definitions(u: &Universe) -> String {
    let mut by_mod: BTreeMap<&str, Vec<&AdtDef>> = BTreeMap::new();
    for d in &u.adts {
        if is_twin(d) {
            continue;
        }
        by_mod.entry(&d.module).or_default().push(d);
    }
    let mut s = String::new();
    for (m, ds) in by_mod {
        if !m.is_empty() {
            let _ = writeln!(s, "pub mod {} {{", m);
        }
        for d in ds {
            s.push_str(&adt_def(u, d));
            s.push('\n');
        }
        if !m.is_empty() {
            s.push_str("}\n");
        }
    }
    s
}

struct Gen<'a> {
    u: &'a Universe,
    idx: BTreeMap<Ty, usize>,
    types: Vec<Ty>,
}

impl<'a> Gen<'a> {
    fn k(&self, t: &Ty) -> usize {
        *self.idx.get(t).unwrap_or_else(|| panic!("type not in closure: {:?}", t))
    }
    fn r(&self, t: &Ty) -> String {
        ty(self.u, t)
    }

    fn build_fn(&self, t: &Ty) -> String {
        let k = self.k(t);
        let rt = self.r(t);
        let body = match t {
            Ty::Prim(p) => match p {
                Prim::Unit => "()".to_string(),
                Prim::Bool => "v.bytes()[0] != 0".to_string(),
                Prim::Char => "char::from_u32(u32::from_ne_bytes(v.bytes().try_into().unwrap())).unwrap()".to_string(),
                p if p.is_nonzero() => format!("<{}>::new(<{}>::from_ne_bytes(v.bytes().try_into().unwrap())).unwrap()", rt, p.base()),
                _ => format!("<{}>::from_ne_bytes(v.bytes().try_into().unwrap())", rt),
            },
            Ty::Phantom(_) => "core::marker::PhantomData".to_string(),
            Ty::RangeFull => "..".to_string(),
            Ty::String => "v.str().to_string()".to_string(),
            Ty::BoxStr => "v.str().to_string().into_boxed_str()".to_string(),
            Ty::Vec(e) => format!("v.seq().iter().map(b_{}).collect::<Vec<_>>()", self.k(e)),
            Ty::BoxSlice(e) => format!("v.seq().iter().map(b_{}).collect::<Vec<_>>().into_boxed_slice()", self.k(e)),
            // (an empty array is written as a literal: `from_fn` would reserve a stack slot for one item even if
            // it is never built, and the item may be a type of gigabytes)
            Ty::Array(_, _) if t.array_len() == 0 => "{ let _ = v; [] }".to_string(),
            Ty::Array(e, _) => format!("{{ let _s = v.seq(); core::array::from_fn(|i| b_{}(&_s[i])) }}", self.k(e)),
            Ty::Tuple(e, n) => {
                let mut s = String::from("{ let s = v.seq(); (");
                for i in 0..*n {
                    let _ = write!(s, "b_{}(&s[{}]), ", self.k(e), i);
                }
                s.push_str(") }");
                s
            }
            Ty::Option(e) => format!("match v.var() {{ (0, _) => None, (_, f) => Some(b_{}(&f[0])) }}", self.k(e)),
            Ty::Bound(e) => format!(
                "match v.var() {{ (0, _) => core::ops::Bound::Unbounded, (1, f) => core::ops::Bound::Included(b_{0}(&f[0])), (_, f) => core::ops::Bound::Excluded(b_{0}(&f[0])) }}",
                self.k(e)
            ),
            Ty::ControlFlow(b, c) => format!(
                "match v.var() {{ (0, f) => core::ops::ControlFlow::Break(b_{}(&f[0])), (_, f) => core::ops::ControlFlow::Continue(b_{}(&f[0])) }}",
                self.k(b),
                self.k(c)
            ),
            Ty::Range(kind, e) => {
                let b = format!("b_{}", self.k(e));
                match kind {
                    RangeKind::Range => format!("{{ let s = v.seq(); {0}(&s[0])..{0}(&s[1]) }}", b),
                    RangeKind::RangeFrom => format!("{{ let s = v.seq(); {0}(&s[0]).. }}", b),
                    RangeKind::RangeInclusive => format!("{{ let s = v.seq(); {0}(&s[0])..={0}(&s[1]) }}", b),
                    RangeKind::RangeTo => format!("{{ let s = v.seq(); ..{0}(&s[0]) }}", b),
                    RangeKind::RangeToInclusive => format!("{{ let s = v.seq(); ..={0}(&s[0]) }}", b),
                }
            }
            Ty::Adt(i, args) => {
                let d = &self.u.adts[*i];
                let path = adt_path(self.u, *i, &[]);
                let lit = |f: &Fields, fts: &[Ty], head: String| -> String {
                    match f {
                        Fields::Unit => head,
                        Fields::Tuple(_) => {
                            let mut s = format!("{}(", head);
                            for (n, ft) in fts.iter().enumerate() {
                                let _ = write!(s, "b_{}(&f[{}]), ", self.k(ft), n);
                            }
                            s.push(')');
                            s
                        }
                        Fields::Named(v) => {
                            let mut s = format!("{} {{ ", head);
                            for (n, ((name, _), ft)) in v.iter().zip(fts).enumerate() {
                                let _ = write!(s, "{}: b_{}(&f[{}]), ", name, self.k(ft), n);
                            }
                            s.push('}');
                            s
                        }
                    }
                };
                match &d.body {
                    Body::Struct(f) => {
                        let fts = self.u.inst_fields(*i, args, 0);
                        format!("{{ let f = v.seq(); let _ = f; {} }}", lit(f, &fts, path))
                    }
                    Body::Enum(vs) => {
                        let mut s = String::from("{ let (k, f) = v.var(); let _ = f; match k { ");
                        for (n, (vn, f)) in vs.iter().enumerate() {
                            let fts = self.u.inst_fields(*i, args, n);
                            let _ = write!(s, "{} => {}, ", n, lit(f, &fts, format!("{}::{}", path, crate::ty::vident(vn))));
                        }
                        s.push_str("_ => panic!(\"bad variant in model value\") } }");
                        s
                    }
                }
            }
            Ty::Param(_) => unreachable!(),
        };
        format!("#[allow(unused)] pub fn b_{}(v: &Val) -> {} {{ {} }}\n", k, rt, body)
    }

    fn seq_of(&self, e: &Ty, it: &str) -> String {
        format!("Val::Seq({}.iter().map(f_{}).collect())", it, self.k(e))
    }

    fn full_fn(&self, t: &Ty) -> String {
        let k = self.k(t);
        let rt = self.r(t);
        let body = match t {
            Ty::Prim(p) => match p {
                Prim::Unit => "Val::Unit".to_string(),
                Prim::Bool => "Val::P(vec![*x as u8])".to_string(),
                Prim::Char => "Val::P((*x as u32).to_ne_bytes().to_vec())".to_string(),
                p if p.is_nonzero() => "Val::P(x.get().to_ne_bytes().to_vec())".to_string(),
                _ => "Val::P(x.to_ne_bytes().to_vec())".to_string(),
            },
            Ty::Phantom(_) | Ty::RangeFull => "Val::Unit".to_string(),
            Ty::String | Ty::BoxStr => "Val::Str(x.to_string())".to_string(),
            Ty::Vec(e) | Ty::BoxSlice(e) | Ty::Array(e, _) => self.seq_of(e, "x"),
            Ty::Tuple(e, n) => {
                let mut s = String::from("Val::Seq(vec![");
                for i in 0..*n {
                    let _ = write!(s, "f_{}(&x.{}), ", self.k(e), i);
                }
                s.push_str("])");
                s
            }
            Ty::Option(e) => format!("match x {{ None => Val::Var(0, vec![]), Some(y) => Val::Var(1, vec![f_{}(y)]) }}", self.k(e)),
            Ty::Bound(e) => format!(
                "match x {{ core::ops::Bound::Unbounded => Val::Var(0, vec![]), core::ops::Bound::Included(y) => Val::Var(1, vec![f_{0}(y)]), core::ops::Bound::Excluded(y) => Val::Var(2, vec![f_{0}(y)]) }}",
                self.k(e)
            ),
            Ty::ControlFlow(b, c) => format!(
                "match x {{ core::ops::ControlFlow::Break(y) => Val::Var(0, vec![f_{}(y)]), core::ops::ControlFlow::Continue(y) => Val::Var(1, vec![f_{}(y)]) }}",
                self.k(b),
                self.k(c)
            ),
            Ty::Range(kind, e) => {
                let f = format!("f_{}", self.k(e));
                match kind {
                    RangeKind::Range => format!("Val::Rec(vec![{0}(&x.start), {0}(&x.end)])", f),
                    RangeKind::RangeFrom => format!("Val::Rec(vec![{0}(&x.start)])", f),
                    RangeKind::RangeInclusive => format!("Val::Rec(vec![{0}(x.start()), {0}(x.end())])", f),
                    RangeKind::RangeTo | RangeKind::RangeToInclusive => format!("Val::Rec(vec![{0}(&x.end)])", f),
                }
            }
            Ty::Adt(i, args) => self.adt_to_val(*i, args, false),
            Ty::Param(_) => unreachable!(),
        };
        format!("#[allow(unused)] pub fn f_{}(x: &{}) -> Val {{ {} }}\n", k, rt, body)
    }

    /// Conversion of an ADT value; `eps` selects the ε-copy flavour (fields whose declared type is
    /// a parameter go through `e_k`, all others through `f_k`).
    fn adt_to_val(&self, i: usize, args: &[Arg], eps: bool) -> String {
        let d = &self.u.adts[i];
        let path = adt_path(self.u, i, &[]);
        let conv = |decl: &Ty, ft: &Ty, expr: String| -> String {
            if eps && matches!(decl, Ty::Param(_)) {
                format!("e_{}({}, s)", self.k(ft), expr)
            } else {
                format!("f_{}({})", self.k(ft), expr)
            }
        };
        match &d.body {
            Body::Struct(f) => {
                let fts = self.u.inst_fields(i, args, 0);
                let mut s = String::from("Val::Rec(vec![");
                // (fields of a packed structure cannot be borrowed: a copy is converted)
                let packed = d.reprs.iter().any(|r| r.contains("packed"));
                let access = |n: String| if packed { format!("&{{ x.{} }}", n) } else { format!("&x.{}", n) };
                match f {
                    Fields::Unit => {}
                    Fields::Tuple(v) => {
                        for (n, (decl, ft)) in v.iter().zip(&fts).enumerate() {
                            let _ = write!(s, "{}, ", conv(decl, ft, access(n.to_string())));
                        }
                    }
                    Fields::Named(v) => {
                        for ((name, decl), ft) in v.iter().zip(&fts) {
                            let _ = write!(s, "{}, ", conv(decl, ft, access(name.clone())));
                        }
                    }
                }
                s.push_str("])");
                s
            }
            Body::Enum(vs) => {
                let mut s = String::from("match x { ");
                for (n, (vn, f)) in vs.iter().enumerate() {
                    let fts = self.u.inst_fields(i, args, n);
                    match f {
                        Fields::Unit => {
                            let _ = write!(s, "{}::{} => Val::Var({}, vec![]), ", path, crate::ty::vident(vn), n);
                        }
                        Fields::Tuple(v) => {
                            let binds: Vec<String> = (0..v.len()).map(|j| format!("v{}", j)).collect();
                            let _ = write!(s, "{}::{}({}) => Val::Var({}, vec![", path, crate::ty::vident(vn), binds.join(", "), n);
                            for (j, (decl, ft)) in v.iter().zip(&fts).enumerate() {
                                let _ = write!(s, "{}, ", conv(decl, ft, format!("v{}", j)));
                            }
                            s.push_str("]), ");
                        }
                        Fields::Named(v) => {
                            let binds: Vec<String> = v.iter().enumerate().map(|(j, (name, _))| format!("{}: v{}", name, j)).collect();
                            let _ = write!(s, "{}::{} {{ {} }} => Val::Var({}, vec![", path, crate::ty::vident(vn), binds.join(", "), n);
                            for (j, ((_, decl), ft)) in v.iter().zip(&fts).enumerate() {
                                let _ = write!(s, "{}, ", conv(decl, ft, format!("v{}", j)));
                            }
                            s.push_str("]), ");
                        }
                    }
                }
                s.push('}');
                s
            }
        }
    }

    fn eps_fn(&self, t: &Ty, m: &Model) -> String {
        let k = self.k(t);
        let dt = m.deser_ty(t);
        let borrow = |ptr: &str, len: &str, align_ty: &str| format!("s.push({} as usize, {}, core::mem::align_of::<{}>())", ptr, len, align_ty);
        let body = match t {
            Ty::Prim(_) | Ty::Phantom(_) | Ty::RangeFull => format!("f_{}(x)", k),
            Ty::Range(kind, e) => {
                // the ε-copy type of a range is the range over the ε-copy type of its index
                let f = format!("e_{}", self.k(e));
                match kind {
                    RangeKind::Range => format!("Val::Rec(vec![{0}(&x.start, s), {0}(&x.end, s)])", f),
                    RangeKind::RangeFrom => format!("Val::Rec(vec![{0}(&x.start, s)])", f),
                    RangeKind::RangeInclusive => format!("Val::Rec(vec![{0}(x.start(), s), {0}(x.end(), s)])", f),
                    RangeKind::RangeTo | RangeKind::RangeToInclusive => format!("Val::Rec(vec![{0}(&x.end, s)])", f),
                }
            }
            Ty::String | Ty::BoxStr => format!("{{ {}; Val::Str(x.to_string()) }}", borrow("x.as_ptr()", "x.len()", "u8")),
            Ty::Vec(e) | Ty::BoxSlice(e) => {
                if self.u.is_zero(e) {
                    format!(
                        "{{ {}; Val::Seq(x.iter().map(f_{}).collect()) }}",
                        borrow("x.as_ptr()", "core::mem::size_of_val::<[_]>(*x)", &self.r(e)),
                        self.k(e)
                    )
                } else {
                    format!("Val::Seq(x.iter().map(|y| e_{}(y, s)).collect())", self.k(e))
                }
            }
            Ty::Array(e, _) => {
                if self.u.is_zero(e) {
                    format!("{{ {}; f_{}(*x) }}", borrow("(*x as *const _)", &format!("core::mem::size_of::<{}>()", self.r(t)), &self.r(t)), k)
                } else {
                    format!("Val::Seq(x.iter().map(|y| e_{}(y, s)).collect())", self.k(e))
                }
            }
            Ty::Tuple(..) => format!("{{ {}; f_{}(*x) }}", borrow("(*x as *const _)", &format!("core::mem::size_of::<{}>()", self.r(t)), &self.r(t)), k),
            Ty::Option(e) => format!("match x {{ None => Val::Var(0, vec![]), Some(y) => Val::Var(1, vec![e_{}(y, s)]) }}", self.k(e)),
            Ty::Bound(e) => format!(
                "match x {{ core::ops::Bound::Unbounded => Val::Var(0, vec![]), core::ops::Bound::Included(y) => Val::Var(1, vec![e_{0}(y, s)]), core::ops::Bound::Excluded(y) => Val::Var(2, vec![e_{0}(y, s)]) }}",
                self.k(e)
            ),
            Ty::ControlFlow(b, c) => format!(
                "match x {{ core::ops::ControlFlow::Break(y) => Val::Var(0, vec![e_{}(y, s)]), core::ops::ControlFlow::Continue(y) => Val::Var(1, vec![e_{}(y, s)]) }}",
                self.k(b),
                self.k(c)
            ),
            Ty::Adt(i, args) => {
                if self.u.adts[*i].is_zero() {
                    format!("{{ {}; f_{}(*x) }}", borrow("(*x as *const _)", &format!("core::mem::size_of::<{}>()", self.r(t)), &self.r(t)), k)
                } else {
                    self.adt_to_val(*i, args, true)
                }
            }
            Ty::Param(_) => unreachable!(),
        };
        format!("#[allow(unused)] pub fn e_{}<'a>(x: &{}, s: &mut Borrows) -> Val {{ {} }}\n", k, dt, body)
    }

    fn layout_stmt(&self, t: &Ty) -> String {
        let rt = self.r(t);
        let mut offs = String::new();
        match t {
            Ty::Tuple(_, n) => {
                for i in 0..*n {
                    let _ = write!(offs, "core::mem::offset_of!({}, {}), ", rt, i);
                }
            }
            Ty::Adt(i, _) if self.u.adts[*i].is_zero() => {
                if let Body::Struct(f) = &self.u.adts[*i].body {
                    match f {
                        Fields::Unit => {}
                        Fields::Tuple(v) => {
                            for n in 0..v.len() {
                                let _ = write!(offs, "core::mem::offset_of!({}, {}), ", rt, n);
                            }
                        }
                        Fields::Named(v) => {
                            for (name, _) in v {
                                let _ = write!(offs, "core::mem::offset_of!({}, {}), ", rt, name);
                            }
                        }
                    }
                }
            }
            _ => {}
        }
        let mut s = format!(
            "    l.0.insert({:?}.to_string(), TyLayout {{ size: core::mem::size_of::<{}>(), align: core::mem::align_of::<{}>(), offsets: vec![{}] }});\n",
            rt, rt, rt, offs
        );
        if self.u.is_zero(t) {
            let _ = writeln!(s, "    units.insert({:?}.to_string(), <{} as epserde::traits::MaxSizeOf>::max_size_of());", rt, rt);
        }
        s
    }
}

/// The complete `uni.rs` of a subject program: definitions, conversion helpers, layouts, subjects.
pub fn program(u: &Universe) -> String {
    let types = {
        let mut nu = u.clone();
        nu.subjects.retain(|t| !is_twin_ty(u, t));
        nu.closure()
    };
    let idx: BTreeMap<Ty, usize> = types.iter().cloned().enumerate().map(|(i, t)| (t, i)).collect();
    let g = Gen { u, idx, types };
    // the ε-copy substitution does not need layouts
    let empty = crate::format::Layouts::default();
    let m = Model::new(u, &empty);

    let mut s = String::new();
    s.push_str("// @generated by the verification harness. Do not edit.\n");
    s.push_str("#![allow(dead_code, unused_variables, unused_imports, non_camel_case_types, non_snake_case, clippy::all)]\n");
    s.push_str("use vmodel::val::Val;\nuse vmodel::borrows::Borrows;\nuse vmodel::format::{Layouts, TyLayout};\nuse std::collections::BTreeMap;\n\n");
    s.push_str(&definitions(u));
    s.push('\n');
    for t in &g.types {
        s.push_str(&g.build_fn(t));
        s.push_str(&g.full_fn(t));
        s.push_str(&g.eps_fn(t, &m));
    }
    // one small function per type: a single function with hundreds of statements overflows the stack at opt-level 0
    for (k, t) in g.types.iter().enumerate() {
        let _ = writeln!(s, "#[inline(never)] fn lay_{}(l: &mut Layouts, units: &mut BTreeMap<String, usize>) {{\n{}}}", k, g.layout_stmt(t));
    }
    s.push_str("\npub fn layouts() -> (Layouts, BTreeMap<String, usize>) {\n    let mut l = Layouts::default();\n    let mut units: BTreeMap<String, usize> = BTreeMap::new();\n");
    for k in 0..g.types.len() {
        let _ = writeln!(s, "    lay_{}(&mut l, &mut units);", k);
    }
    for (j, t) in u.subjects.iter().enumerate() {
        if is_twin_ty(u, t) {
            let _ = writeln!(s, "    <Subj{} as voracles::Subject>::extra_layouts(&mut l, &mut units);", j);
        }
    }
    s.push_str("    (l, units)\n}\n\n");
    for (j, t) in u.subjects.iter().enumerate() {
        if is_twin_ty(u, t) {
            s.push_str(&twin_block(u, j, t, &m));
            continue;
        }
        let k = g.k(t);
        let rt = g.r(t);
        let dt_static = m.deser_ty(t).replace("'a", "'static");
        let _ = writeln!(
            s,
            "pub struct Subj{j};\nimpl voracles::Subject for Subj{j} {{\n    type T = {rt};\n    const NAME: &'static str = {rt:?};\n    const INDEX: usize = {j};\n    fn build(v: &Val) -> Self::T {{ b_{k}(v) }}\n    fn full_to_val(x: &Self::T) -> Val {{ f_{k}(x) }}\n    fn eps_to_val<'a>(x: &<Self::T as epserde::deser::DeserializeInner>::DeserType<'a>, s: &mut Borrows) -> Val {{ e_{k}(x, s) }}\n    fn deser_type_is_documented() -> bool {{ core::any::TypeId::of::<<Self::T as epserde::deser::DeserializeInner>::DeserType<'static>>() == core::any::TypeId::of::<{dt_static}>() }}\n    fn ser_type_is_self() -> bool {{ core::any::TypeId::of::<<Self::T as epserde::ser::SerializeInner>::SerType>() == core::any::TypeId::of::<{rt}>() }}\n}}\n",
            j = j,
            rt = rt,
            k = k,
            dt_static = dt_static
        );
    }
    s.push_str(&seq_section(u, &g));
    s.push_str("pub fn subjects() -> Vec<Box<dyn voracles::DynSubject>> {\n    vec![\n");
    for j in 0..u.subjects.len() {
        let _ = writeln!(s, "        voracles::wrap::<Subj{}>(),", j);
    }
    s.push_str("    ]\n}\n");
    s
}

/// C16 / C13 machinery: for every subject of the form `Vec<E>`, monomorphic functions serializing the
/// same items as vector, slice reference, exact-size-iterator wrapper, and nested in generic structs.
fn seq_section(u: &Universe, g: &Gen) -> String {
    let mut s = String::new();
    s.push_str("#[derive(epserde::Epserde, Clone, Debug)]\npub struct SeqW1<A> { pub pre: u8, pub a: A, pub post: u16 }\n");
    s.push_str("#[derive(epserde::Epserde, Clone, Debug)]\npub struct SeqW2<A, B> { pub a: A, pub mid: String, pub b: B }\n\n");
    let mut entries = String::new();
    for (j, t) in u.subjects.iter().enumerate() {
        let Ty::Vec(e) = t else { continue };
        let k = g.k(t);
        let et = g.r(e);
        let zero = u.is_zero(e);
        let iter_stream = |src: &str| format!("{{ let it = epserde::impls::iter::SerIter::from({}.iter()); ser(&it)? }}", src);
        let _ = writeln!(s, "pub fn seq_streams_{j}(v: &Val) -> Result<voracles::seq::SeqStreams, String> {{");
        s.push_str("    use epserde::ser::Serialize;\n    fn ser<T: Serialize>(x: &T) -> Result<Vec<u8>, String> { let mut o = Vec::new(); x.serialize(&mut o).map_err(|e| format!(\"{:?}\", e))?; Ok(o) }\n");
        let _ = writeln!(s, "    let xs: Vec<{et}> = b_{k}(v);");
        s.push_str("    let vec = ser(&xs)?;\n    let slice = { let r: &[_] = &xs[..]; ser(&r)? };\n");
        if zero {
            let _ = writeln!(s, "    let iter = Some({});", iter_stream("xs"));
        } else {
            s.push_str("    let iter = None;\n");
        }
        s.push_str("    let w = SeqW1 { pre: 7u8, a: xs, post: 0x9a9bu16 };\n    let w1_vec = ser(&w)?;\n    let w1_slice = ser(&SeqW1 { pre: 7u8, a: &w.a[..], post: 0x9a9bu16 })?;\n");
        if zero {
            s.push_str("    let w1_iter = Some(ser(&SeqW1 { pre: 7u8, a: epserde::impls::iter::SerIter::from(w.a.iter()), post: 0x9a9bu16 })?);\n");
        } else {
            s.push_str("    let w1_iter = None;\n");
        }
        s.push_str("    let w2 = SeqW2 { a: w.a.clone(), mid: String::from(\"mid\"), b: w.a };\n    let w2_vec = ser(&w2)?;\n");
        if zero {
            s.push_str("    let w2_mixed = ser(&SeqW2 { a: &w2.a[..], mid: String::from(\"mid\"), b: epserde::impls::iter::SerIter::from(w2.b.iter()) })?;\n");
        } else {
            s.push_str("    let w2_mixed = ser(&SeqW2 { a: &w2.a[..], mid: String::from(\"mid\"), b: &w2.b[..] })?;\n");
        }
        s.push_str("    Ok(voracles::seq::SeqStreams { vec, slice, iter, w1_vec, w1_slice, w1_iter, w2_vec, w2_mixed })\n}\n");
        // faulty sinks with source check
        let _ = writeln!(s, "pub fn seq_faulty_{j}(v: &Val, which: u8, mut w: &mut dyn std::io::Write) -> (epserde::ser::Result<usize>, voracles::SrcReport) {{");
        s.push_str("    use epserde::ser::Serialize;\n");
        let _ = writeln!(s, "    let xs: Vec<{et}> = b_{k}(v);");
        s.push_str("    let (r, foreign_frees) = match which {\n");
        s.push_str("        0 => { let r: &[_] = &xs[..]; voracles::alloc::protected(|| r.serialize(&mut w)) }\n");
        s.push_str("        2 => { let x = SeqW1 { pre: 7u8, a: &xs[..], post: 0x9a9bu16 }; voracles::alloc::protected(|| x.serialize(&mut w)) }\n");
        if zero {
            s.push_str("        1 => { let it = epserde::impls::iter::SerIter::from(xs.iter()); voracles::alloc::protected(|| it.serialize(&mut w)) }\n");
            s.push_str("        _ => { let x = SeqW1 { pre: 7u8, a: epserde::impls::iter::SerIter::from(xs.iter()), post: 0x9a9bu16 }; voracles::alloc::protected(|| x.serialize(&mut w)) }\n");
        } else {
            s.push_str("        _ => { let x = SeqW2 { a: &xs[..], mid: String::from(\"mid\"), b: &xs[..] }; voracles::alloc::protected(|| x.serialize(&mut w)) }\n");
        }
        let _ = writeln!(s, "    }};\n    let intact = f_{k}(&xs) == *v;\n    drop(xs);\n    (r, voracles::SrcReport {{ intact, foreign_frees }})\n}}");
        if zero {
            let _ = writeln!(s, "pub fn seq_liar_{j}(v: &Val, announced: usize, actual: usize, nested: bool, mut w: &mut dyn std::io::Write) -> epserde::ser::Result<usize> {{");
            s.push_str("    use epserde::ser::Serialize;\n");
            let _ = writeln!(s, "    let xs: Vec<{et}> = b_{k}(v);");
            s.push_str("    let liar = voracles::seq::Liar { it: xs[..actual].iter(), announced };\n    let it = epserde::impls::iter::SerIter::new(liar);\n");
            s.push_str("    if nested { SeqW1 { pre: 7u8, a: it, post: 0x9a9bu16 }.serialize(&mut w) } else { it.serialize(&mut w) }\n}\n");
        }
        let _ = writeln!(
            entries,
            "        voracles::seq::SeqEntry {{ subject_index: {j}, elem_zero: {zero}, streams: seq_streams_{j}, faulty: seq_faulty_{j}, liar: {} }},",
            if zero { format!("Some(seq_liar_{j})") } else { "None".to_string() }
        );
    }
    let _ = writeln!(s, "pub fn seqs() -> Vec<voracles::seq::SeqEntry> {{\n    vec![\n{}    ]\n}}\n", entries);
    s
}

/// A twin subject: its definition, conversion helpers and `Subject` impl inside an anonymous const block.
fn twin_block(u: &Universe, j: usize, t: &Ty, m: &Model) -> String {
    let Ty::Adt(i, _) = t else { unreachable!() };
    let d = &u.adts[*i];
    let fake = adt_path(u, *i, &[]);
    // a private universe holding just this subject gives the closure and the helper indices
    let mut nu = u.clone();
    nu.subjects = vec![t.clone()];
    let types = nu.closure();
    let idx: BTreeMap<Ty, usize> = types.iter().cloned().enumerate().map(|(i, t)| (t, i)).collect();
    let g = Gen { u, idx, types };
    let mut b = String::new();
    b.push_str(&adt_def(u, d));
    for ty in &g.types {
        b.push_str(&g.build_fn(ty));
        b.push_str(&g.full_fn(ty));
        b.push_str(&g.eps_fn(ty, m));
    }
    let k = g.k(t);
    let rt = g.r(t);
    let dt_static = m.deser_ty(t).replace("'a", "'static");
    let mut lay = String::new();
    for ty in &g.types {
        lay.push_str(&g.layout_stmt(ty));
    }
    let _ = writeln!(
        b,
        "impl voracles::Subject for Subj{j} {{\n    type T = {rt};\n    const NAME: &'static str = {rt:?};\n    const INDEX: usize = {j};\n    fn build(v: &Val) -> Self::T {{ b_{k}(v) }}\n    fn full_to_val(x: &Self::T) -> Val {{ f_{k}(x) }}\n    fn eps_to_val<'a>(x: &<Self::T as epserde::deser::DeserializeInner>::DeserType<'a>, s: &mut Borrows) -> Val {{ e_{k}(x, s) }}\n    fn deser_type_is_documented() -> bool {{ core::any::TypeId::of::<<Self::T as epserde::deser::DeserializeInner>::DeserType<'static>>() == core::any::TypeId::of::<{dt_static}>() }}\n    fn ser_type_is_self() -> bool {{ core::any::TypeId::of::<<Self::T as epserde::ser::SerializeInner>::SerType>() == core::any::TypeId::of::<{rt}>() }}\n    fn extra_layouts(l: &mut Layouts, units: &mut BTreeMap<String, usize>) {{\n{lay}    }}\n}}",
        j = j,
        rt = rt,
        k = k,
        dt_static = dt_static,
        lay = lay
    );
    // inside the block the type is reachable by its bare name only; string literals (NAME, layout keys) keep the unique fake path
    let code = b.replace(&format!("{:?}", fake), "\u{1}FAKE\u{1}").replace(&fake, &d.name).replace("\u{1}FAKE\u{1}", &format!("{:?}", fake));
    format!("pub struct Subj{};\nconst _: () = {{\n{}\n}};\n\n", j, code)
}
