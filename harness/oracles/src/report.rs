//! Per-run report: counts, classes, samples, failures. Serialized to JSON for the driver.

use serde_json::{json, Value};
use std::collections::{BTreeMap, BTreeSet};
use vmodel::val::Val;

#[derive(Clone, Debug)]
pub struct Failure {
    pub property: String,
    pub subject: String,
    pub subject_index: usize,
    pub val: Option<Val>,
    pub env: Value,
    pub message: String,
    /// stable signature used to match known findings
    pub signature: String,
}

#[derive(Clone, Debug, Default)]
pub struct Report {
    pub evaluations: u64,
    pub nontrivial: BTreeSet<u64>,
    pub classes: BTreeMap<String, u64>,
    pub samples: Vec<Value>,
    pub failures: Vec<Failure>,
    /// known findings encountered: signature -> occurrences
    pub known: BTreeMap<String, u64>,
    pub excluded: BTreeMap<String, u64>,
    pub notes: Vec<String>,
    pub exhaustive_parts: BTreeMap<String, u64>,
}

pub const MAX_SAMPLES: usize = 12;

impl Report {
    pub fn class(&mut self, k: &str) {
        *self.classes.entry(k.to_string()).or_default() += 1;
    }
    pub fn class_n(&mut self, k: &str, n: u64) {
        *self.classes.entry(k.to_string()).or_default() += n;
    }
    pub fn sample(&mut self, v: Value) {
        if self.samples.len() < MAX_SAMPLES {
            self.samples.push(v);
        }
    }
    pub fn merge(&mut self, o: Report) {
        self.evaluations += o.evaluations;
        self.nontrivial.extend(o.nontrivial);
        for (k, v) in o.classes {
            *self.classes.entry(k).or_default() += v;
        }
        for s in o.samples {
            // keep samples from different subjects: interleave by simple cap
            if self.samples.len() < 4 * MAX_SAMPLES {
                self.samples.push(s);
            }
        }
        self.failures.extend(o.failures);
        for (k, v) in o.known {
            *self.known.entry(k).or_default() += v;
        }
        for (k, v) in o.excluded {
            *self.excluded.entry(k).or_default() += v;
        }
        self.notes.extend(o.notes);
        for (k, v) in o.exhaustive_parts {
            *self.exhaustive_parts.entry(k).or_default() += v;
        }
    }
    pub fn to_json(&self) -> Value {
        json!({
            "evaluations": self.evaluations,
            "nontrivial": self.nontrivial.iter().map(|h| format!("{:016x}", h)).collect::<Vec<_>>(),
            "classes": self.classes,
            "samples": self.samples,
            "failures": self.failures.iter().map(|f| json!({
                "property": f.property, "subject": f.subject, "subject_index": f.subject_index,
                "val": f.val.as_ref().map(|v| serde_json::to_value(v).unwrap()),
                "val_shown": f.val.as_ref().map(|v| v.show()),
                "env": f.env, "message": f.message, "signature": f.signature,
            })).collect::<Vec<_>>(),
            "known": self.known,
            "excluded": self.excluded,
            "notes": self.notes,
            "exhaustive_parts": self.exhaustive_parts,
        })
    }
}

pub fn hash_case(parts: &[&str], v: &Val, env: u64) -> u64 {
    use std::hash::{Hash, Hasher};
    // FNV-based stable hasher (no RandomState)
    struct Fnv(u64);
    impl Hasher for Fnv {
        fn finish(&self) -> u64 {
            self.0
        }
        fn write(&mut self, b: &[u8]) {
            for x in b {
                self.0 ^= *x as u64;
                self.0 = self.0.wrapping_mul(0x100000001b3);
            }
        }
    }
    let mut h = Fnv(0xcbf29ce484222325);
    for p in parts {
        p.hash(&mut h);
    }
    v.hash(&mut h);
    env.hash(&mut h);
    vmodel::mix_seed(&[], h.finish())
}
