//! Entry point of every generated subject program, and helpers shared by the checks.

use crate::report::{Failure, Report};
use crate::DynSubject;
use proptest::strategy::{BoxedStrategy, Strategy, ValueTree};
use proptest::test_runner::{Config, RngAlgorithm, RngSeed, TestCaseError, TestError, TestRng, TestRunner};
use serde_json::{json, Value};
use std::cell::RefCell;
use std::collections::BTreeMap;
use std::panic::{self, AssertUnwindSafe};
use vmodel::format::{Layouts, Model};
use vmodel::ty::{Ty, Universe};
use vmodel::val::Val;

#[derive(Clone, Copy, Debug, PartialEq, Eq)]
pub enum Tier {
    Quick,
    Thorough,
}

pub struct Ctx<'a> {
    pub u: &'a Universe,
    pub model: Model<'a>,
    /// alignment units reported by the real `MaxSizeOf` for zero-copy closed types
    pub units: &'a BTreeMap<String, usize>,
    pub tier: Tier,
    pub seed: u64,
    pub prop: String,
    /// number of generated values per subject
    pub cases: u32,
    /// directory for temporary files
    pub tmp: std::path::PathBuf,
    /// strict mode (replay): known findings are not tolerated silently
    pub known: &'a BTreeMap<String, Value>,
}

thread_local! {
    static LAST_PANIC: RefCell<Option<String>> = const { RefCell::new(None) };
}

pub fn install_panic_hook() {
    panic::set_hook(Box::new(|info| {
        let msg = if let Some(s) = info.payload().downcast_ref::<&str>() {
            s.to_string()
        } else if let Some(s) = info.payload().downcast_ref::<String>() {
            s.clone()
        } else {
            "<non-string panic>".to_string()
        };
        let loc = info.location().map(|l| format!("{}:{}", l.file(), l.line())).unwrap_or_default();
        LAST_PANIC.with(|p| *p.borrow_mut() = Some(format!("{} @ {}", msg, loc)));
    }));
}

/// Run `f`, turning a panic into `Err(message @ file:line)`.
pub fn guard<R>(f: impl FnOnce() -> R) -> Result<R, String> {
    match panic::catch_unwind(AssertUnwindSafe(f)) {
        Ok(r) => Ok(r),
        Err(_) => Err(LAST_PANIC.with(|p| p.borrow_mut().take()).unwrap_or_else(|| "<panic>".into())),
    }
}

/// Outcome of checking one generated case.
#[derive(Default)]
pub struct CaseLog {
    pub nontrivial: bool,
    pub env_hash: u64,
    pub classes: Vec<String>,
    pub sample: Option<Value>,
    /// extra evaluations performed inside the case (sub-enumerations)
    pub extra_evals: u64,
    /// extra distinct non-trivial sub-cases (hashes)
    pub extra_nontrivial: Vec<u64>,
    /// known findings met (signature)
    pub known: Vec<String>,
}

/// A failed case: message + stable signature + environment description.
pub struct Fail {
    pub message: String,
    pub signature: String,
    pub env: Value,
}

impl Fail {
    pub fn new(sig: &str, msg: impl Into<String>) -> Fail {
        Fail { message: msg.into(), signature: sig.to_string(), env: Value::Null }
    }
    pub fn env(mut self, e: Value) -> Fail {
        self.env = e;
        self
    }
}

pub fn rng_for(ctx: &Ctx, parts: &[&str]) -> TestRng {
    let s = vmodel::mix_seed(parts, ctx.seed);
    TestRng::from_seed(RngAlgorithm::ChaCha, &vmodel::seed_bytes(s))
}

/// Like `run_cases`, preceded by a deterministic enumeration of `pre` values (no shrinking: each is
/// already minimal in the dimension it sweeps).
pub fn run_cases_pre(
    ctx: &Ctx,
    subj: &dyn DynSubject,
    rep: &mut Report,
    pre: &[Val],
    strategy: BoxedStrategy<Val>,
    cases: u32,
    check: &dyn Fn(&Val, &mut CaseLog) -> Result<(), Fail>,
) {
    for v in pre {
        let mut log = CaseLog::default();
        let r = check(v, &mut log);
        rep.evaluations += 1 + log.extra_evals;
        if log.nontrivial {
            rep.nontrivial.insert(crate::report::hash_case(&[subj.name()], v, log.env_hash));
        }
        rep.nontrivial.extend(log.extra_nontrivial.iter().copied());
        for c in &log.classes {
            rep.class(c);
        }
        rep.class("enumerated-sweep-value");
        if let Err(f) = r {
            rep.failures.push(Failure {
                property: ctx.prop.clone(),
                subject: subj.name().to_string(),
                subject_index: subj.index(),
                val: Some(v.clone()),
                env: f.env,
                message: f.message,
                signature: f.signature,
            });
            return;
        }
    }
    run_cases(ctx, subj, rep, strategy, cases, check);
}

/// Drive `check` over `cases` values of `strategy` with proptest (fixed seed, shrinking on failure).
pub fn run_cases(
    ctx: &Ctx,
    subj: &dyn DynSubject,
    rep: &mut Report,
    strategy: BoxedStrategy<Val>,
    cases: u32,
    check: &dyn Fn(&Val, &mut CaseLog) -> Result<(), Fail>,
) {
    let seed = vmodel::mix_seed(&[&ctx.prop, subj.name()], ctx.seed);
    let config = Config {
        cases,
        failure_persistence: None,
        rng_seed: RngSeed::Fixed(seed),
        // file-backed cases are expensive: bound the shrinking work there
        // cases that enumerate hundreds of corruptions, cut points or fault positions (or touch files) are expensive:
        // a bounded number of shrinking steps keeps a run on a tree where *every* subject fails within minutes
        max_shrink_iters: match ctx.prop.as_str() {
            "C08" | "C09" => 48,
            "C10" | "C11" | "C12" | "C13" | "C14" | "C15" | "C18" => 96,
            _ => 2000,
        },
        max_global_rejects: 0,
        ..Config::default()
    };
    let mut runner = TestRunner::new(config);
    let failed = RefCell::new(false);
    let last_fail: RefCell<Option<Fail>> = RefCell::new(None);
    let rep_cell = RefCell::new(std::mem::take(rep));
    let result = runner.run(&strategy, |v| {
        let mut log = CaseLog::default();
        let r = check(&v, &mut log);
        if !*failed.borrow() {
            let mut rep = rep_cell.borrow_mut();
            rep.evaluations += 1 + log.extra_evals;
            if log.nontrivial {
                rep.nontrivial.insert(crate::report::hash_case(&[subj.name()], &v, log.env_hash));
            }
            rep.nontrivial.extend(log.extra_nontrivial.iter().copied());
            for c in &log.classes {
                rep.class(c);
            }
            for k in &log.known {
                *rep.known.entry(k.clone()).or_default() += 1;
            }
            if let Some(s) = log.sample.take() {
                if log.nontrivial || rep.samples.is_empty() {
                    rep.sample(s);
                }
            }
        }
        match r {
            Ok(()) => Ok(()),
            Err(f) => {
                *failed.borrow_mut() = true;
                let msg = f.message.clone();
                *last_fail.borrow_mut() = Some(f);
                Err(TestCaseError::fail(msg))
            }
        }
    });
    *rep = rep_cell.into_inner();
    if let Err(e) = result {
        match e {
            TestError::Fail(reason, v) => {
                // re-run the check on the minimal value to get its own message/signature
                let mut log = CaseLog::default();
                let f = match check(&v, &mut log) {
                    Err(f) => f,
                    Ok(()) => last_fail.into_inner().unwrap_or_else(|| Fail::new("unstable", format!("failure did not reproduce on the shrunk value: {}", reason))),
                };
                rep.failures.push(Failure {
                    property: ctx.prop.clone(),
                    subject: subj.name().to_string(),
                    subject_index: subj.index(),
                    val: Some(v),
                    env: f.env,
                    message: f.message,
                    signature: f.signature,
                });
            }
            TestError::Abort(reason) => rep.notes.push(format!("proptest aborted for {}: {}", subj.name(), reason)),
        }
    }
}

/// Generate `n` values of a strategy deterministically without running a check (for enumerations).
pub fn sample_vals(ctx: &Ctx, parts: &[&str], strategy: &BoxedStrategy<Val>, n: usize) -> Vec<Val> {
    let seed = vmodel::mix_seed(parts, ctx.seed);
    let mut runner = TestRunner::new(Config { failure_persistence: None, rng_seed: RngSeed::Fixed(seed), ..Config::default() });
    (0..n).map(|_| strategy.new_tree(&mut runner).expect("strategy").current()).collect()
}

pub type CheckFn = fn(&Ctx, &dyn DynSubject, &Ty, &mut Report);

fn arg(args: &[String], name: &str) -> Option<String> {
    args.iter().position(|a| a == name).and_then(|i| args.get(i + 1).cloned())
}

/// `main` of every generated subject program.
pub fn main(subjects: Vec<Box<dyn DynSubject>>, lay: (Layouts, BTreeMap<String, usize>), seqs: Vec<crate::seq::SeqEntry>) {
    let args: Vec<String> = std::env::args().collect();
    let upath = arg(&args, "--universe").expect("--universe");
    let prop = arg(&args, "--prop").expect("--prop");
    let tier = match arg(&args, "--tier").as_deref() {
        Some("thorough") => Tier::Thorough,
        _ => Tier::Quick,
    };
    let seed: u64 = arg(&args, "--seed").and_then(|s| s.parse().ok()).unwrap_or(0);
    let out = arg(&args, "--out").expect("--out");
    let threads: usize = arg(&args, "--threads").and_then(|s| s.parse().ok()).unwrap_or(8);
    let only: Option<usize> = arg(&args, "--only").and_then(|s| s.parse().ok());
    let from: usize = arg(&args, "--from").and_then(|s| s.parse().ok()).unwrap_or(0);
    let to: usize = arg(&args, "--to").and_then(|s| s.parse().ok()).unwrap_or(usize::MAX);
    let skip: Vec<usize> = arg(&args, "--skip").map(|s| s.split(',').filter_map(|x| x.parse().ok()).collect()).unwrap_or_default();
    let cases_override: Option<u32> = arg(&args, "--cases").and_then(|s| s.parse().ok());
    let tmp = std::path::PathBuf::from(arg(&args, "--tmp").unwrap_or_else(|| "/verif/work/tmp".into()));
    let replay: Option<Value> = arg(&args, "--replay").map(|p| serde_json::from_str(&std::fs::read_to_string(p).expect("replay file")).expect("replay json"));
    let known: BTreeMap<String, Value> = arg(&args, "--known")
        .and_then(|p| std::fs::read_to_string(p).ok())
        .and_then(|s| serde_json::from_str::<Value>(&s).ok())
        .map(|v| {
            let mut m = BTreeMap::new();
            if let Some(a) = v.get("findings").and_then(|x| x.as_array()) {
                for f in a {
                    if let Some(sig) = f.get("signature").and_then(|x| x.as_str()) {
                        m.insert(sig.to_string(), f.clone());
                    }
                }
            }
            m
        })
        .unwrap_or_default();

    let u: Universe = serde_json::from_str(&std::fs::read_to_string(&upath).expect("universe file")).expect("universe json");
    assert_eq!(u.subjects.len(), subjects.len(), "universe file does not match the compiled program");
    std::fs::create_dir_all(&tmp).ok();
    install_panic_hook();

    if prop == "layouts" {
        std::fs::write(&out, serde_json::to_string(&json!({"layouts": lay.0, "units": lay.1})).unwrap()).unwrap();
        return;
    }

    if prop == "C19" {
        let start = std::time::Instant::now();
        let rep = crate::checks::cursor::run(tier, seed, replay.as_ref());
        let mut j = rep.to_json();
        j["wall_s"] = json!(start.elapsed().as_secs_f64());
        j["subjects"] = json!(crate::checks::cursor::ALIGNMENTS.len());
        j["universe"] = json!("-");
        std::fs::write(&out, serde_json::to_string(&j).unwrap()).unwrap();
        return;
    }
    if prop == "corpus-write" {
        let ctx = Ctx { u: &u, model: Model::new(&u, &lay.0), units: &lay.1, tier, seed, prop: prop.clone(), cases: 1, tmp: tmp.clone(), known: &known };
        for (i, s) in subjects.iter().enumerate() {
            if let Err(e) = crate::checks::format::corpus_write(&ctx, &**s, &u.subjects[i]) {
                eprintln!("corpus: {}: {}", s.name(), e);
            }
        }
        std::fs::write(&out, "{}").unwrap();
        return;
    }
    if prop == "C04" {
        let start = std::time::Instant::now();
        let ctx = Ctx { u: &u, model: Model::new(&u, &lay.0), units: &lay.1, tier, seed, prop: prop.clone(), cases: 1, tmp: tmp.clone(), known: &known };
        let only_pair = replay.as_ref().and_then(|r| Some((r["env"]["t"].as_u64()? as usize, r["env"]["u"].as_u64()? as usize)));
        if let Some(v) = replay.as_ref().and_then(|r| r.get("val")).and_then(|v| serde_json::from_value::<Val>(v.clone()).ok()) {
            crate::checks::REPLAY_VAL.with(|c| *c.borrow_mut() = Some(v));
        }
        let rep = crate::checks::cross::run(&ctx, &subjects, &seqs, only_pair);
        let mut j = rep.to_json();
        j["wall_s"] = json!(start.elapsed().as_secs_f64());
        j["subjects"] = json!(subjects.len());
        j["universe"] = json!(u.label);
        std::fs::write(&out, serde_json::to_string(&j).unwrap()).unwrap();
        return;
    }
    let check: CheckFn = if prop == "C16" { |_, _, _, _| {} } else { crate::checks::lookup(&prop).unwrap_or_else(|| panic!("unknown property {}", prop)) };
    let start = std::time::Instant::now();
    let mut idxs: Vec<usize> = (0..subjects.len()).filter(|i| only.map_or(true, |o| o == *i) && *i >= from && *i < to && !skip.contains(i)).collect();
    if prop == "C16" {
        idxs.retain(|i| seqs.iter().any(|e| e.subject_index == *i));
    }
    let next = std::sync::atomic::AtomicUsize::new(0);
    let merged = std::sync::Mutex::new(Report::default());
    let default_cases = cases_override.unwrap_or_else(|| crate::checks::default_cases(&prop, tier));
    std::thread::scope(|sc| {
        for _ in 0..threads.max(1) {
            // generous stacks: generated zero-copy values are passed by value through unoptimised code
            let _ = std::thread::Builder::new().stack_size(256 << 20).spawn_scoped(sc, || {
                install_panic_hook();
                let mut local = Report::default();
                loop {
                    let n = next.fetch_add(1, std::sync::atomic::Ordering::SeqCst);
                    if n >= idxs.len() {
                        break;
                    }
                    let i = idxs[n];
                    let ctx = Ctx {
                        u: &u,
                        model: Model::new(&u, &lay.0),
                        units: &lay.1,
                        tier,
                        seed,
                        prop: prop.clone(),
                        // values of tens of thousands of components (a 66 KB zero-copy structure): fewer of them
                        cases: match vmodel::val::val_weight(&u, &u.subjects[i], 0) {
                            w if w >= 20_000 => default_cases.min(3),
                            w if w >= 2_000 => default_cases.min(16),
                            _ => default_cases,
                        },
                        tmp: tmp.clone(),
                        known: &known,
                    };
                    let mut rep = Report::default();
                    let t_subject = std::time::Instant::now();
                    if std::env::var_os("VERIF_TRACE").is_some() {
                        eprintln!("SUBJECT {} {}", i, subjects[i].name());
                    }
                    if prop == "C16" {
                        let entry = seqs.iter().find(|e| e.subject_index == i).unwrap();
                        if let Some(r) = &replay {
                            if r.get("subject").and_then(|s| s.as_str()) == Some(subjects[i].name()) {
                                if let Some(v) = r.get("val").and_then(|v| serde_json::from_value::<Val>(v.clone()).ok()) {
                                    crate::checks::REPLAY_VAL.with(|c| *c.borrow_mut() = Some(v));
                                }
                                crate::seq::c16(&ctx, &*subjects[i], &u.subjects[i], entry, &mut rep);
                                crate::checks::REPLAY_VAL.with(|c| *c.borrow_mut() = None);
                            }
                        } else {
                            let res = guard(|| crate::seq::c16(&ctx, &*subjects[i], &u.subjects[i], entry, &mut rep));
                            if let Err(p) = res {
                                rep.notes.push(format!("harness panic in C16: {}", p));
                            }
                        }
                    } else if let Some(r) = &replay {
                        crate::checks::replay(&ctx, &*subjects[i], &u.subjects[i], r, &mut rep);
                        if prop == "C13" && r.get("subject").and_then(|s| s.as_str()) == Some(subjects[i].name()) {
                            if let Some(entry) = seqs.iter().find(|e| e.subject_index == i) {
                                if let Some(v) = r.get("val").and_then(|v| serde_json::from_value::<Val>(v.clone()).ok()) {
                                    crate::checks::REPLAY_VAL.with(|c| *c.borrow_mut() = Some(v));
                                    crate::seq::c13_sources(&ctx, &*subjects[i], &u.subjects[i], entry, &mut rep);
                                    crate::checks::REPLAY_VAL.with(|c| *c.borrow_mut() = None);
                                }
                            }
                        }
                    } else {
                        let res = guard(|| {
                            check(&ctx, &*subjects[i], &u.subjects[i], &mut rep);
                            if prop == "C13" {
                                if let Some(entry) = seqs.iter().find(|e| e.subject_index == i) {
                                    crate::seq::c13_sources(&ctx, &*subjects[i], &u.subjects[i], entry, &mut rep);
                                }
                            }
                        });
                        if let Err(p) = res {
                            rep.failures.push(Failure {
                                property: prop.clone(),
                                subject: subjects[i].name().to_string(),
                                subject_index: i,
                                val: None,
                                env: Value::Null,
                                message: format!("harness panic outside a guarded call: {}", p),
                                signature: "harness-panic".into(),
                            });
                        }
                    }
                    if std::env::var_os("VERIF_TIMES").is_some() {
                        eprintln!("TIME {:.2}s subject {} {}", t_subject.elapsed().as_secs_f64(), i, &subjects[i].name()[..subjects[i].name().len().min(90)]);
                    }
                    local.merge(rep);
                }
                merged.lock().unwrap().merge(local);
            });
        }
    });
    let mut rep = merged.into_inner().unwrap();
    // same-name twin types (see render.rs) once more, all on this one thread and in order: state that the code
    // under test keeps per thread and per type *name* is then shared between the two types of a pair
    let twin_replay = replay.as_ref().map_or(false, |r| r.get("subject").and_then(|s| s.as_str()).map_or(false, |s| s.contains("::twin")));
    if (replay.is_none() || twin_replay) && prop != "C16" && prop != "C09" && rep.failures.is_empty() {
        let twins: Vec<usize> = idxs.iter().copied().filter(|i| subjects[*i].name().contains("::twin")).collect();
        if !twins.is_empty() {
            let ctx = Ctx { u: &u, model: Model::new(&u, &lay.0), units: &lay.1, tier, seed: seed ^ 0x7717, prop: prop.clone(), cases: default_cases.min(24), tmp: tmp.clone(), known: &known };
            let res = std::thread::scope(|sc| {
                std::thread::Builder::new()
                    .stack_size(256 << 20)
                    .spawn_scoped(sc, || {
                        install_panic_hook();
                        let mut local = Report::default();
                        for round in 0..2 {
                            for &i in &twins {
                                let mut r = Report::default();
                                let _ = guard(|| match &replay {
                                    Some(rj) if rj.get("subject").and_then(|s| s.as_str()) == Some(subjects[i].name()) => crate::checks::replay(&ctx, &*subjects[i], &u.subjects[i], rj, &mut r),
                                    // (the sibling types are exercised first, as in the run that failed)
                                    Some(_) => check(&ctx, &*subjects[i], &u.subjects[i], &mut Report::default()),
                                    None => check(&ctx, &*subjects[i], &u.subjects[i], &mut r),
                                });
                                r.class("twin-types-on-one-thread");
                                let _ = round;
                                local.merge(r);
                            }
                        }
                        local
                    })
                    .unwrap()
                    .join()
            });
            if let Ok(local) = res {
                rep.merge(local);
            }
        }
    }
    // calling contexts that do not depend on the type (once per run; also when a crash is being attributed to the
    // first subject, so that an abort in here reproduces)
    if u.label == "fixed" && from == 0 && only.map_or(true, |o| o == 0) && replay.as_ref().map_or(true, |r| !r["env"]["context"].is_null()) {
        if prop == "C13" {
            crate::checks::contexts::c13_thread_exit(&mut rep);
        }
        if prop == "C01" || prop == "C02" {
            crate::checks::contexts::c01_reentrant_user(&mut rep, &prop);
        }
        if prop == "C09" {
            crate::checks::contexts::c09_load_during_unwinding(&mut rep, &tmp);
        }
        if (prop == "C13" && crate::checks::contexts::c13_writer_context(&mut rep)) || (prop == "C14" && crate::checks::contexts::c14_reader_contexts(&mut rep)) {
            // a thread is blocked inside the library: write the report and leave without touching it again
            let mut j = rep.to_json();
            j["wall_s"] = json!(start.elapsed().as_secs_f64());
            j["subjects"] = json!(idxs.len());
            j["universe"] = json!(u.label);
            std::fs::write(&out, serde_json::to_string(&j).unwrap()).unwrap();
            std::process::exit(0);
        }
    }
    if (prop == "C01" || prop == "C07") && u.label == "extra" && only.is_none() && from == 0 && replay.as_ref().map_or(true, |r| !r["env"]["giant"].is_null()) {
        let mut g = crate::checks::bigfile::run_giant(seed);
        for f in g.failures.iter_mut() {
            f.property = prop.clone();
        }
        rep.merge(g);
    }
    if prop == "C08" && u.label == "extra" && only.is_none() && from == 0 && replay.as_ref().map_or(true, |r| !r["env"]["bigfile"].is_null()) {
        let t0 = std::time::Instant::now();
        rep.merge(crate::checks::bigfile::run(tier, seed, &tmp, replay.as_ref()));
        rep.notes.push(format!("files of more than 2 GiB: stage took {:.1}s", t0.elapsed().as_secs_f64()));
    }
    let mut j = rep.to_json();
    j["wall_s"] = json!(start.elapsed().as_secs_f64());
    j["subjects"] = json!(idxs.len());
    j["universe"] = json!(u.label);
    std::fs::write(&out, serde_json::to_string(&j).unwrap()).unwrap();
}
