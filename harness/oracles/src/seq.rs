//! C16: slices and exact-size iterators serialize exactly like the vector. (Also the C13 sources
//! behind borrowed slices and iterators.) The monomorphic serialization functions are generated.

use crate::faults::{FaultyWriter, WriteSchedule};
use crate::report::Report;
use crate::runner::{guard, CaseLog, Ctx, Fail, Tier};
use crate::{DynSubject, SrcReport};
use epserde::ser;
use serde_json::json;
use std::io::Write;
use vmodel::ty::Ty;
use vmodel::val::{GenCfg, Val};

pub struct SeqStreams {
    pub vec: Vec<u8>,
    pub slice: Vec<u8>,
    pub iter: Option<Vec<u8>>,
    pub w1_vec: Vec<u8>,
    pub w1_slice: Vec<u8>,
    pub w1_iter: Option<Vec<u8>>,
    pub w2_vec: Vec<u8>,
    pub w2_mixed: Vec<u8>,
}

pub struct SeqEntry {
    pub subject_index: usize,
    pub elem_zero: bool,
    pub streams: fn(&Val) -> Result<SeqStreams, String>,
    pub faulty: fn(&Val, u8, &mut dyn Write) -> (ser::Result<usize>, SrcReport),
    pub liar: Option<fn(&Val, usize, usize, bool, &mut dyn Write) -> ser::Result<usize>>,
}

/// An exact-size iterator that lies about its length.
pub struct Liar<'a, E> {
    pub it: std::slice::Iter<'a, E>,
    pub announced: usize,
}

impl<'a, E> Iterator for Liar<'a, E> {
    type Item = &'a E;
    fn next(&mut self) -> Option<&'a E> {
        self.it.next()
    }
    fn size_hint(&self) -> (usize, Option<usize>) {
        (self.announced, Some(self.announced))
    }
}

impl<E> ExactSizeIterator for Liar<'_, E> {
    fn len(&self) -> usize {
        self.announced
    }
}

pub fn c16(ctx: &Ctx, subj: &dyn DynSubject, ty: &Ty, entry: &SeqEntry, rep: &mut Report) {
    use crate::checks::*;
    let Ty::Vec(elem) = ty else { return };
    let strat = with_entropy(strategy_for(ctx, ty, GenCfg { max_len: 12, long: true }), 32);
    crate::runner::run_cases(ctx, subj, rep, strat, ctx.cases, &|case, log: &mut CaseLog| {
        let (v, _ent) = split_entropy(case);
        self_check(subj, v)?;
        let n = v.seq().len();
        log.nontrivial = n > 0;
        log.classes.push(if entry.elem_zero { "elem-zero-copy".into() } else { "elem-deep".into() });
        log.classes.push(format!("len-{}", if n == 0 { "0" } else if n < 4 { "1-3" } else if n < 16 { "4-15" } else { "16+" }));
        let st = match guard(|| (entry.streams)(v)) {
            Err(p) => return Err(Fail::new(&format!("seq-panic:{}", panic_class(&p)), format!("serializing slice/iterator variants panicked: {}", p))),
            Ok(Err(e)) => return Err(Fail::new("seq-ser-error", format!("serializing slice/iterator variants failed: {}", e))),
            Ok(Ok(s)) => s,
        };
        log.sample = Some(sample_json(subj, v, Some(&st.slice), json!({"items": n, "elem_zero_copy": entry.elem_zero})));
        let pairs: Vec<(&str, &Vec<u8>, Option<&Vec<u8>>)> = vec![
            ("slice reference", &st.vec, Some(&st.slice)),
            ("iterator wrapper", &st.vec, st.iter.as_ref()),
            ("slice reference inside a generic struct", &st.w1_vec, Some(&st.w1_slice)),
            ("iterator wrapper inside a generic struct", &st.w1_vec, st.w1_iter.as_ref()),
            ("slice + iterator/slice inside a two-parameter struct", &st.w2_vec, Some(&st.w2_mixed)),
        ];
        for (what, a, b) in pairs {
            let Some(b) = b else { continue };
            log.extra_evals += 1;
            if a != b {
                let i = a.iter().zip(b.iter()).position(|(x, y)| x != y).unwrap_or(a.len().min(b.len()));
                return Err(Fail::new(&format!("seq-bytes-differ:{}", what.split(' ').next().unwrap_or("")), format!("{}: stream differs from the vector's at byte {} (lengths {} / {})", what, i, b.len(), a.len())).env(json!({"variant": what})));
            }
        }
        // the slice stream deserializes as the vector type in both modes
        match full_of(subj, &st.slice) {
            Ok(Ok(x)) if x == *v => {}
            other => return Err(Fail::new("seq-slice-full", format!("slice stream does not deserialize (full) as the vector: {:?}", other.map(|r| r.map(|x| x.show()).map_err(|e| format!("{:?}", e)))))),
        }
        let pl = crate::faults::Placed::new(&st.slice, 128, 0);
        match guard(|| subj.eps(pl.bytes()).map(|o| o.val)) {
            Ok(Ok(x)) if x == *v => {}
            other => return Err(Fail::new("seq-slice-eps", format!("slice stream does not deserialize (ε-copy) as the vector: {:?}", other.map(|r| r.map(|x| x.show()).map_err(|e| format!("{:?}", e)))))),
        }
        // lying iterators: all (announced, actual) pairs in 0..8
        if let Some(liar) = entry.liar {
            let mut items: Vec<Val> = v.seq().to_vec();
            let filler = vmodel::val::min_val(ctx.u, elem);
            while items.len() < 8 {
                items.push(filler.clone());
            }
            let big = Val::Seq(items);
            for announced in 0..8usize {
                for actual in 0..8usize {
                    if announced == actual {
                        continue;
                    }
                    for nested in [false, true] {
                        log.extra_evals += 1;
                        log.extra_nontrivial.push(hash_sub(subj.name(), &Val::Unit, "c16-liar", (announced * 8 + actual) as u64, nested as u64));
                        let mut sink: Vec<u8> = Vec::new();
                        let env = json!({"announced": announced, "actual": actual, "nested": nested});
                        match guard(|| liar(&big, announced, actual, nested, &mut sink)) {
                            Ok(Err(ser::Error::IteratorLengthMismatch { actual: a, expected: e })) if a == actual && e == announced => {
                                // the message a user reads must attribute the two counts correctly (checked wherever
                                // the sentence names them)
                                let msg = format!("{}", ser::Error::IteratorLengthMismatch { actual: a, expected: e });
                                let num_after = |key: &str| -> Option<usize> { msg.find(key).and_then(|i| msg[i + key.len()..].split(|c: char| !c.is_ascii_digit()).next().and_then(|d| d.parse().ok())) };
                                if num_after("expected ").map_or(false, |n| n != announced) || num_after("got ").map_or(false, |n| n != actual) {
                                    return Err(Fail::new("liar-message-swapped", format!("iterator announcing {} items and yielding {}: the error's message reads {:?}", announced, actual, msg)).env(env));
                                }
                            }
                            Ok(Err(e)) => return Err(Fail::new("liar-wrong-error", format!("iterator announcing {} items and yielding {}: {:?}", announced, actual, e)).env(env)),
                            Ok(Ok(nb)) => return Err(Fail::new("liar-success", format!("iterator announcing {} items and yielding {}: serialization succeeded ({} bytes)", announced, actual, nb)).env(env)),
                            Err(p) => return Err(Fail::new(&format!("liar-panic:{}", panic_class(&p)), format!("iterator announcing {} items and yielding {}: panicked: {}", announced, actual, p)).env(env)),
                        }
                    }
                }
            }
            log.classes.push("liar-grid".into());
        }
        Ok(())
    });
}

/// C13 for sources behind borrowed slices and iterators.
pub fn c13_sources(ctx: &Ctx, subj: &dyn DynSubject, ty: &Ty, entry: &SeqEntry, rep: &mut Report) {
    use crate::checks::*;
    let Ty::Vec(_) = ty else { return };
    let strat = with_entropy(strategy_for(ctx, ty, GenCfg { max_len: 6, long: false }), 32);
    crate::runner::run_cases(ctx, subj, rep, strat, ctx.cases, &|case, log: &mut CaseLog| {
        let (v, ent) = split_entropy(case);
        let mut ent = Ent::new(ent);
        self_check(subj, v)?;
        let st = match guard(|| (entry.streams)(v)) {
            Err(p) => return Err(Fail::new(&format!("seq-panic:{}", panic_class(&p)), format!("serializing slice/iterator variants panicked: {}", p))),
            Ok(Err(e)) => return Err(Fail::new("seq-ser-error", format!("serializing slice/iterator variants failed: {}", e))),
            Ok(Ok(s)) => s,
        };
        let enc = model_enc_fit(ctx, subj, ty, v, st.slice.len(), log)?;
        let has_mask = enc.mask.iter().any(|m| !*m);
        log.nontrivial = true;
        log.classes.push("borrowed-source".into());
        log.sample = Some(sample_json(subj, v, Some(&st.slice), json!({"sources": "&[T], SerIter, nested in generic structs", "schedule": "fail@k"})));
        // writer faults with borrowed sources
        let len = st.slice.len().max(st.w1_slice.len()).max(st.w2_mixed.len());
        let budget = if ctx.tier == Tier::Thorough { 48 } else { 10 };
        for which in 0..4u8 {
            let reference: &Vec<u8> = match (which, entry.elem_zero) {
                (0, _) | (1, _) => &st.slice,
                (2, _) | (3, true) => &st.w1_slice,
                (3, false) => &st.w2_mixed,
                _ => unreachable!(),
            };
            if which == 1 && !entry.elem_zero {
                continue;
            }
            let mut cuts: Vec<usize> = vec![0, 29, reference.len() - 1, reference.len().saturating_sub(9)];
            for _ in 0..budget {
                cuts.push(ent.pick(reference.len()));
            }
            cuts.retain(|k| *k < reference.len());
            cuts.sort();
            cuts.dedup();
            for k in cuts {
                log.extra_evals += 1;
                log.extra_nontrivial.push(hash_sub(subj.name(), v, "c16-fault", k as u64, which as u64));
                let mut fw = FaultyWriter::new(WriteSchedule::FailAt { k, kind: std::io::ErrorKind::Other }, len + 64);
                let what = format!("source #{} (0 slice, 1 iterator, 2/3 nested) failing after {} bytes", which, k);
                let env = json!({"source": which, "k": k});
                match guard(|| (entry.faulty)(v, which, &mut fw)) {
                    Err(p) => return Err(Fail::new(&format!("seq-fault-panic:{}", panic_class(&p)), format!("{}: panicked: {}", what, p)).env(env)),
                    Ok((r, src)) => {
                        if src.foreign_frees > 0 {
                            return Err(Fail::new("seq-fault-frees-source", format!("{}: serialization freed {} allocation(s) that existed before the call (the data behind the borrowed source)", what, src.foreign_frees)).env(env));
                        }
                        if !src.intact {
                            return Err(Fail::new("seq-fault-damages-source", format!("{}: the borrowed data changed", what)).env(env));
                        }
                        match r {
                            Err(ser::Error::WriteError) => {}
                            other => return Err(Fail::new("seq-fault-result", format!("{}: result {:?} instead of Err(WriteError)", what, other)).env(env)),
                        }
                        // compiler padding inside zero-copy aggregates may differ between two builds of the
                        // value: the unwrapped streams are compared modulo the model's mask, the nested ones
                        // only when the elements contain no padding at all
                        let is_prefix = if which <= 1 {
                            prefix_masked(&enc, &fw.accepted, reference)
                        } else if has_mask {
                            true
                        } else {
                            fw.accepted[..] == reference[..fw.accepted.len().min(reference.len())]
                        };
                        if fw.accepted.len() > k || !is_prefix {
                            return Err(Fail::new("seq-fault-prefix", format!("{}: accepted bytes are not a prefix of the fault-free stream", what)).env(env));
                        }
                    }
                }
            }
        }
        Ok(())
    });
}
