//! Faulty writers and readers, placement buffers.

use std::io::{self, Read, Write};

/// What a writer does with the byte stream offered to it.
#[derive(Clone, Debug, PartialEq, Eq)]
pub enum WriteSchedule {
    /// accept everything
    Clean,
    /// return an error once `k` bytes have been accepted (k may equal the stream length: then only flush fails if `fail_flush`)
    FailAt { k: usize, kind: io::ErrorKind },
    /// return `Ok(0)` once `k` bytes have been accepted
    ZeroAt { k: usize },
    /// accept at most `chunks[i % len]` bytes per call (never fails): split writes
    Split { chunks: Vec<usize> },
    /// like `Split`, returning `Interrupted` before every `every`-th call
    Interrupting { chunks: Vec<usize>, every: usize },
    /// accept everything, fail on flush
    FlushFails,
    /// accept everything, fail on flush with `ErrorKind::Interrupted` (nobody retries a flush)
    FlushInterrupted,
    /// reject exactly one write call (the one that would cross `k` accepted bytes), then accept everything
    FailOnce { k: usize },
    /// like `FailOnce`, with a "try again later" error kind (WouldBlock / TimedOut)
    FailOnceKind { k: usize, kind: io::ErrorKind },
}

pub struct FaultyWriter {
    pub sched: WriteSchedule,
    pub accepted: Vec<u8>,
    pub calls: usize,
    pub flushes: usize,
    pub interrupted_next: bool,
    pub failed_once: bool,
}

impl FaultyWriter {
    pub fn new(sched: WriteSchedule, capacity: usize) -> Self {
        FaultyWriter { sched, accepted: Vec::with_capacity(capacity), calls: 0, flushes: 0, interrupted_next: false, failed_once: false }
    }
    fn push(&mut self, b: &[u8]) {
        // never reallocate inside a protected epoch: capacity was reserved up front
        assert!(self.accepted.len() + b.len() <= self.accepted.capacity(), "faulty writer capacity exceeded");
        self.accepted.extend_from_slice(b);
    }
}

impl Write for FaultyWriter {
    fn write(&mut self, buf: &[u8]) -> io::Result<usize> {
        self.calls += 1;
        if buf.is_empty() {
            return Ok(0);
        }
        match self.sched.clone() {
            WriteSchedule::Clean | WriteSchedule::FlushFails | WriteSchedule::FlushInterrupted => {
                self.push(buf);
                Ok(buf.len())
            }
            WriteSchedule::FailAt { k, kind } => {
                let room = k.saturating_sub(self.accepted.len());
                if room == 0 {
                    return Err(io::Error::new(kind, "injected write failure"));
                }
                let n = room.min(buf.len());
                self.push(&buf[..n]);
                Ok(n)
            }
            WriteSchedule::FailOnceKind { k, kind } => {
                if !self.failed_once && self.accepted.len() + buf.len() > k {
                    self.failed_once = true;
                    let room = k.saturating_sub(self.accepted.len());
                    if room == 0 {
                        return Err(io::Error::new(kind, "injected one-shot write failure"));
                    }
                    self.push(&buf[..room]);
                    return Ok(room);
                }
                if self.failed_once && self.accepted.len() == k && !self.interrupted_next {
                    self.interrupted_next = true;
                    return Err(io::Error::new(kind, "injected one-shot write failure"));
                }
                self.push(buf);
                Ok(buf.len())
            }
            WriteSchedule::FailOnce { k } => {
                if !self.failed_once && self.accepted.len() + buf.len() > k {
                    self.failed_once = true;
                    let room = k.saturating_sub(self.accepted.len());
                    if room == 0 {
                        return Err(io::Error::new(io::ErrorKind::Other, "injected one-shot write failure"));
                    }
                    self.push(&buf[..room]);
                    return Ok(room);
                }
                if self.failed_once && self.accepted.len() == k && !self.interrupted_next {
                    // the call right after the partial one is the one that fails
                    self.interrupted_next = true;
                    return Err(io::Error::new(io::ErrorKind::Other, "injected one-shot write failure"));
                }
                self.push(buf);
                Ok(buf.len())
            }
            WriteSchedule::ZeroAt { k } => {
                let room = k.saturating_sub(self.accepted.len());
                let n = room.min(buf.len());
                self.push(&buf[..n]);
                Ok(n)
            }
            WriteSchedule::Split { chunks } => {
                let c = chunks[(self.calls - 1) % chunks.len()].max(1);
                let n = c.min(buf.len());
                self.push(&buf[..n]);
                Ok(n)
            }
            WriteSchedule::Interrupting { chunks, every } => {
                if self.calls % every.max(2) == 0 && !self.interrupted_next {
                    self.interrupted_next = true;
                    return Err(io::Error::new(io::ErrorKind::Interrupted, "injected EINTR"));
                }
                self.interrupted_next = false;
                let c = chunks[(self.calls - 1) % chunks.len()].max(1);
                let n = c.min(buf.len());
                self.push(&buf[..n]);
                Ok(n)
            }
        }
    }
    fn flush(&mut self) -> io::Result<()> {
        self.flushes += 1;
        match self.sched {
            WriteSchedule::FlushFails => Err(io::Error::new(io::ErrorKind::Other, "injected flush failure")),
            WriteSchedule::FlushInterrupted => Err(io::Error::new(io::ErrorKind::Interrupted, "injected interrupted flush")),
            _ => Ok(()),
        }
    }
}

#[derive(Clone, Debug, PartialEq, Eq)]
pub enum ReadSchedule {
    Clean,
    /// at most `chunks[i % len]` bytes per call
    Chunked { chunks: Vec<usize> },
    /// chunked, with `Interrupted` before every `every`-th call
    Interrupting { chunks: Vec<usize>, every: usize },
    /// error once `k` bytes have been delivered
    FailAt { k: usize, kind: io::ErrorKind },
    /// deliver up to `k` bytes (a short read if a call straddles `k`), fail once with `kind`, then go on
    /// delivering the rest: a reader that is "not ready" once (WouldBlock, TimedOut)
    FailOnceAt { k: usize, kind: io::ErrorKind },
}

pub struct FaultyReader<'a> {
    pub data: &'a [u8],
    pub pos: usize,
    pub sched: ReadSchedule,
    pub calls: usize,
    interrupted_next: bool,
}

impl<'a> FaultyReader<'a> {
    pub fn new(data: &'a [u8], sched: ReadSchedule) -> Self {
        FaultyReader { data, pos: 0, sched, calls: 0, interrupted_next: false }
    }
}

impl Read for FaultyReader<'_> {
    fn read(&mut self, buf: &mut [u8]) -> io::Result<usize> {
        self.calls += 1;
        if buf.is_empty() {
            return Ok(0);
        }
        let left = self.data.len() - self.pos;
        let n = match self.sched.clone() {
            ReadSchedule::Clean => left.min(buf.len()),
            ReadSchedule::Chunked { chunks } => chunks[(self.calls - 1) % chunks.len()].max(1).min(left).min(buf.len()),
            ReadSchedule::Interrupting { chunks, every } => {
                if self.calls % every.max(2) == 0 && !self.interrupted_next {
                    self.interrupted_next = true;
                    return Err(io::Error::new(io::ErrorKind::Interrupted, "injected EINTR"));
                }
                self.interrupted_next = false;
                chunks[(self.calls - 1) % chunks.len()].max(1).min(left).min(buf.len())
            }
            ReadSchedule::FailAt { k, kind } => {
                let room = k.saturating_sub(self.pos);
                if room == 0 {
                    return Err(io::Error::new(kind, "injected read failure"));
                }
                room.min(left).min(buf.len())
            }
            ReadSchedule::FailOnceAt { k, kind } => {
                if self.pos == k && !self.interrupted_next {
                    self.interrupted_next = true;
                    return Err(io::Error::new(kind, "injected one-shot read failure"));
                }
                if self.pos < k {
                    (k - self.pos).min(left).min(buf.len())
                } else {
                    left.min(buf.len())
                }
            }
        };
        buf[..n].copy_from_slice(&self.data[self.pos..self.pos + n]);
        self.pos += n;
        Ok(n)
    }
}

/// A heap buffer whose payload starts at `base + residue` where `base` is aligned to `align`,
/// and whose payload is *exactly* `len` bytes long when `exact` (so that sanitizers see any
/// access past the end).
pub struct Placed {
    ptr: *mut u8,
    layout: std::alloc::Layout,
    off: usize,
    len: usize,
}

unsafe impl Send for Placed {}

impl Placed {
    pub fn new(data: &[u8], align: usize, residue: usize) -> Self {
        let size = residue + data.len();
        let layout = std::alloc::Layout::from_size_align(size.max(1), align).unwrap();
        let ptr = unsafe { std::alloc::alloc(layout) };
        assert!(!ptr.is_null());
        unsafe {
            std::ptr::write_bytes(ptr, 0xA5, residue);
            std::ptr::copy_nonoverlapping(data.as_ptr(), ptr.add(residue), data.len());
        }
        Placed { ptr, layout, off: residue, len: data.len() }
    }
    pub fn bytes(&self) -> &[u8] {
        unsafe { std::slice::from_raw_parts(self.ptr.add(self.off), self.len) }
    }
    pub fn addr(&self) -> usize {
        self.ptr as usize + self.off
    }
}

impl Drop for Placed {
    fn drop(&mut self) {
        unsafe { std::alloc::dealloc(self.ptr, self.layout) }
    }
}
