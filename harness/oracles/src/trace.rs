//! A recording `WriteWithNames` that wraps the crate's real `WriterWithPos` and delegates to its
//! default `align` / `write_bytes` (so the real padding logic runs) while logging events.

use epserde::ser::{self, SerializeInner, WriteNoStd, WriteWithNames, WriteWithPos, WriterWithPos};
use epserde::traits::{MaxSizeOf, ZeroCopy};

#[derive(Clone, Debug, PartialEq, Eq)]
pub enum Event {
    Align { pos: usize, unit: usize },
    Block { pos: usize, len: usize, size_of: usize, align_of: usize, unit: usize, ty: &'static str },
}

pub struct Tracer<'a, F: WriteNoStd> {
    inner: WriterWithPos<'a, F>,
    pub events: Vec<Event>,
}

impl<'a, F: WriteNoStd> Tracer<'a, F> {
    pub fn new(backend: &'a mut F) -> Self {
        Tracer { inner: WriterWithPos::new(backend), events: vec![] }
    }
}

impl<F: WriteNoStd> WriteNoStd for Tracer<'_, F> {
    fn write_all(&mut self, buf: &[u8]) -> ser::Result<()> {
        self.inner.write_all(buf)
    }
    fn flush(&mut self) -> ser::Result<()> {
        self.inner.flush()
    }
}

impl<F: WriteNoStd> WriteWithPos for Tracer<'_, F> {
    fn pos(&self) -> usize {
        self.inner.pos()
    }
}

impl<F: WriteNoStd> WriteWithNames for Tracer<'_, F> {
    fn align<V: MaxSizeOf>(&mut self) -> ser::Result<()> {
        self.events.push(Event::Align { pos: self.inner.pos(), unit: V::max_size_of() });
        self.inner.align::<V>()
    }
    fn write<V: SerializeInner>(&mut self, _field_name: &str, value: &V) -> ser::Result<()> {
        value._serialize_inner(self)
    }
    fn write_bytes<V: SerializeInner + ZeroCopy>(&mut self, value: &[u8]) -> ser::Result<()> {
        self.events.push(Event::Block {
            pos: self.inner.pos(),
            len: value.len(),
            size_of: core::mem::size_of::<V>(),
            align_of: core::mem::align_of::<V>(),
            unit: V::max_size_of(),
            ty: core::any::type_name::<V>(),
        });
        self.inner.write_bytes::<V>(value)
    }
}
