//! C19: AlignedCursor vs std::io::Cursor<Vec<u8>> (model-based, operation histories).

use crate::report::{Failure, Report};
use crate::runner::{guard, Tier};
use epserde::utils::AlignedCursor;
use maligned::*;
use proptest::prelude::*;
use proptest::test_runner::{Config, RngSeed, TestCaseError, TestError, TestRunner};
use serde_json::{json, Value};
use std::io::{Cursor, Read, Seek, SeekFrom, Write};

#[derive(Clone, Debug, PartialEq, Eq, Hash)]
pub enum Op {
    Write(Vec<u8>),
    WriteAll(Vec<u8>),
    Flush,
    Read(usize),
    SeekStart(u64),
    SeekCurrent(i64),
    SeekEnd(i64),
    SetPosition(u64),
    Position,
    Len,
    AsBytes,
    StreamPosition,
    /// continue on a clone of the cursor (the original is dropped)
    CloneSwap,
    /// xor a byte of the data through the mutable view (index taken modulo the length)
    PokeMut(usize, u8),
    /// `write_vectored` with at most one non-empty buffer (where every conforming implementation must agree with
    /// the std cursor: nothing to write, or exactly one buffer to write)
    WriteV(Vec<Vec<u8>>),
    /// `read_exact`, replayed only while the position is within the data: there the provided method (all that the
    /// aligned cursor has on the pinned tree) and std's specialisation agree on result and final position (a
    /// failed call leaves both at the end of the data); beyond the end std's specialisation moves the position
    /// *back* to the end, which no `Read::read_exact` contract asks for. The buffer is compared on success only
    /// (its contents are unspecified after a failure).
    ReadExact(usize),
}

/// positions at which a write is still replayed on both cursors (keeps the std model away from
/// capacity overflow and the run away from gigabyte allocations)
pub const WRITE_POS_LIMIT: u64 = 1 << 16;

fn pos_strategy() -> impl Strategy<Value = u64> {
    prop_oneof![
        6 => 0u64..96,
        3 => prop::sample::select(vec![0u64, 1, 15, 16, 17, 31, 32, 33, 63, 64, 65, 127, 128, 129, 255, 256, 257, 4095, 4096, 4097]),
        1 => 0u64..5000,
        1 => prop::sample::select(vec![WRITE_POS_LIMIT - 1, WRITE_POS_LIMIT, u32::MAX as u64, i64::MAX as u64, u64::MAX, u64::MAX - 1]),
    ]
}

fn off_strategy() -> impl Strategy<Value = i64> {
    prop_oneof![
        6 => -64i64..64,
        2 => -5000i64..5000,
        1 => prop::sample::select(vec![i64::MIN, i64::MIN + 1, i64::MAX, i64::MAX - 1, -1, 0, 1]),
    ]
}

pub fn op_strategy() -> impl Strategy<Value = Op> {
    let data = prop_oneof![
        1 => Just(vec![]),
        6 => prop::collection::vec(any::<u8>(), 0..48),
        1 => prop::collection::vec(any::<u8>(), 48..400),
    ];
    prop_oneof![
        5 => data.clone().prop_map(Op::Write),
        // `write_all(&[])` is excluded: std specialises `write_all` for `Cursor<Vec<u8>>` so that even an
        // empty call pads up to the position, whereas the provided `Write::write_all` never calls
        // `write` for an empty buffer: a quirk of std's specialisation, like `read_exact`.
        3 => prop_oneof![6 => prop::collection::vec(any::<u8>(), 1..48), 1 => prop::collection::vec(any::<u8>(), 48..400)].prop_map(Op::WriteAll),
        1 => Just(Op::Flush),
        4 => (0usize..48).prop_map(Op::Read),
        2 => prop_oneof![3 => 0usize..48, 1 => 48usize..600].prop_map(Op::ReadExact),
        2 => pos_strategy().prop_map(Op::SeekStart),
        2 => off_strategy().prop_map(Op::SeekCurrent),
        2 => off_strategy().prop_map(Op::SeekEnd),
        3 => pos_strategy().prop_map(Op::SetPosition),
        1 => Just(Op::Position),
        1 => Just(Op::Len),
        2 => Just(Op::AsBytes),
        1 => Just(Op::StreamPosition),
        1 => Just(Op::CloneSwap),
        1 => (0usize..6000, 1u8..=255).prop_map(|(i, x)| Op::PokeMut(i, x)),
        1 => (0usize..4, 0usize..4, prop::collection::vec(any::<u8>(), 0..40)).prop_map(|(n, k, d)| {
            let mut bufs = vec![vec![]; n];
            if n > 0 {
                bufs[k % n] = d;
            }
            Op::WriteV(bufs)
        }),
    ]
}

fn io_res<T: std::fmt::Debug>(r: std::io::Result<T>) -> Result<T, std::io::ErrorKind> {
    r.map_err(|e| e.kind())
}

/// Apply the history to both cursors; returns Err(description) at the first divergence.
pub fn run_history<A: Alignment>(ops: &[Op], with_capacity: Option<usize>) -> Result<(usize, bool), String> {
    let mut a: AlignedCursor<A> = match with_capacity {
        Some(c) => AlignedCursor::with_capacity(c),
        None => AlignedCursor::new(),
    };
    let mut s: Cursor<Vec<u8>> = Cursor::new(Vec::new());
    let mut skipped = 0usize;
    let mut write_past_end = false;
    for (i, op) in ops.iter().enumerate() {
        let step = format!("step {} {:?}", i, short(op));
        match op {
            Op::Write(d) | Op::WriteAll(d) => {
                if s.position() > WRITE_POS_LIMIT {
                    skipped += 1;
                    continue;
                }
                if s.position() as usize > s.get_ref().len() && !d.is_empty() {
                    write_past_end = true;
                }
                let (ra, rs) = if matches!(op, Op::Write(_)) {
                    (guard(|| io_res(a.write(d))).map_err(|p| format!("{}: AlignedCursor panicked: {}", step, p))?, io_res(s.write(d)))
                } else {
                    (guard(|| io_res(a.write_all(d).map(|_| d.len()))).map_err(|p| format!("{}: AlignedCursor panicked: {}", step, p))?, io_res(s.write_all(d).map(|_| d.len())))
                };
                if ra != rs {
                    return Err(format!("{}: AlignedCursor returned {:?}, std cursor {:?}", step, ra, rs));
                }
            }
            Op::Flush => {
                let (ra, rs) = (io_res(a.flush()), io_res(s.flush()));
                if ra != rs {
                    return Err(format!("{}: flush {:?} vs {:?}", step, ra, rs));
                }
            }
            Op::Read(n) => {
                let mut ba = vec![0xAAu8; *n];
                let mut bs = vec![0xAAu8; *n];
                let ra = guard(|| io_res(a.read(&mut ba))).map_err(|p| format!("{}: AlignedCursor panicked: {}", step, p))?;
                let rs = io_res(s.read(&mut bs));
                if ra != rs || ba != bs {
                    return Err(format!("{}: read returned {:?} / {:02x?}, std cursor {:?} / {:02x?}", step, ra, &ba[..ba.len().min(8)], rs, &bs[..bs.len().min(8)]));
                }
            }
            Op::ReadExact(n) => {
                if s.position() > s.get_ref().len() as u64 {
                    skipped += 1;
                    continue;
                }
                let mut ba = vec![0xAAu8; *n];
                let mut bs = vec![0xAAu8; *n];
                let ra = guard(|| io_res(a.read_exact(&mut ba))).map_err(|p| format!("{}: AlignedCursor panicked: {}", step, p))?;
                let rs = io_res(s.read_exact(&mut bs));
                if ra != rs || (rs.is_ok() && ba != bs) {
                    return Err(format!("{}: read_exact returned {:?} / {:02x?}, std cursor {:?} / {:02x?}", step, ra, &ba[..ba.len().min(8)], rs, &bs[..bs.len().min(8)]));
                }
            }
            Op::SeekStart(_) | Op::SeekCurrent(_) | Op::SeekEnd(_) => {
                let sf = match op {
                    Op::SeekStart(p) => SeekFrom::Start(*p),
                    Op::SeekCurrent(o) => SeekFrom::Current(*o),
                    Op::SeekEnd(o) => SeekFrom::End(*o),
                    _ => unreachable!(),
                };
                let ra = guard(|| io_res(a.seek(sf))).map_err(|p| format!("{}: AlignedCursor panicked: {}", step, p))?;
                let rs = io_res(s.seek(sf));
                if ra != rs {
                    return Err(format!("{}: seek returned {:?}, std cursor {:?}", step, ra, rs));
                }
            }
            Op::SetPosition(p) => {
                a.set_position(*p as usize);
                s.set_position(*p);
            }
            Op::Position | Op::Len | Op::AsBytes => {}
            Op::WriteV(bufs) => {
                if s.position() > WRITE_POS_LIMIT {
                    skipped += 1;
                    continue;
                }
                let ios: Vec<std::io::IoSlice> = bufs.iter().map(|b| std::io::IoSlice::new(b)).collect();
                let ra = guard(|| io_res(a.write_vectored(&ios))).map_err(|p| format!("{}: AlignedCursor panicked: {}", step, p))?;
                let rs = io_res(s.write_vectored(&ios));
                if ra != rs {
                    return Err(format!("{}: write_vectored returned {:?}, std cursor {:?}", step, ra, rs));
                }
            }
            Op::CloneSwap => {
                let c = guard(|| a.clone()).map_err(|p| format!("{}: clone panicked: {}", step, p))?;
                a = c;
                s = s.clone();
            }
            Op::PokeMut(i, x) => {
                let n = s.get_ref().len();
                let view_len = guard(|| a.as_bytes_mut().len()).map_err(|p| format!("{}: as_bytes_mut panicked: {}", step, p))?;
                if view_len != n {
                    return Err(format!("{}: as_bytes_mut has {} bytes, std {}", step, view_len, n));
                }
                if n > 0 {
                    a.as_bytes_mut()[i % n] ^= x;
                    s.get_mut()[i % n] ^= x;
                }
            }
            Op::StreamPosition => {
                let (ra, rs) = (io_res(a.stream_position()), io_res(s.stream_position()));
                if ra != rs {
                    return Err(format!("{}: stream_position {:?} vs {:?}", step, ra, rs));
                }
            }
        }
        // invariants after every step
        if a.position() as u64 != s.position() {
            return Err(format!("{}: position {} vs std {}", step, a.position(), s.position()));
        }
        if a.len() != s.get_ref().len() {
            return Err(format!("{}: length {} vs std {}", step, a.len(), s.get_ref().len()));
        }
        if a.is_empty() != s.get_ref().is_empty() {
            return Err(format!("{}: is_empty disagrees", step));
        }
        let bytes = guard(|| a.as_bytes().to_vec()).map_err(|p| format!("{}: as_bytes panicked: {}", step, p))?;
        if bytes != *s.get_ref() {
            let d = bytes.iter().zip(s.get_ref().iter()).position(|(x, y)| x != y);
            return Err(format!("{}: contents differ (first difference at {:?}, lengths {} / {})", step, d, bytes.len(), s.get_ref().len()));
        }
        let ptr = a.as_bytes().as_ptr() as usize;
        if ptr % core::mem::align_of::<A>() != 0 {
            return Err(format!("{}: storage at {:#x} is not aligned to {}", step, ptr, core::mem::align_of::<A>()));
        }
    }
    // consuming accessors
    let (vec, len) = a.into_parts();
    if len != s.get_ref().len() || vec.len() * core::mem::size_of::<A>() < len {
        return Err(format!("into_parts: length {} / storage {} bytes, std {}", len, vec.len() * core::mem::size_of::<A>(), s.get_ref().len()));
    }
    Ok((skipped, write_past_end))
}

fn short(op: &Op) -> String {
    match op {
        Op::Write(d) => format!("Write({} bytes)", d.len()),
        Op::WriteAll(d) => format!("WriteAll({} bytes)", d.len()),
        Op::WriteV(b) => format!("WriteV({:?} bytes)", b.iter().map(|x| x.len()).collect::<Vec<_>>()),
        o => format!("{:?}", o),
    }
}

pub const ALIGNMENTS: [&str; 8] = ["A2", "A4", "A8", "A16", "A32", "A64", "A256", "A512"];

pub fn run_with(align: usize, ops: &[Op], cap: Option<usize>) -> Result<(usize, bool), String> {
    match align {
        0 => run_history::<A2>(ops, cap),
        1 => run_history::<A4>(ops, cap),
        2 => run_history::<A8>(ops, cap),
        3 => run_history::<A16>(ops, cap),
        4 => run_history::<A32>(ops, cap),
        5 => run_history::<A64>(ops, cap),
        6 => run_history::<A256>(ops, cap),
        _ => run_history::<A512>(ops, cap),
    }
}

pub fn ops_to_json(ops: &[Op]) -> Value {
    json!(ops
        .iter()
        .map(|o| match o {
            Op::Write(d) => json!({"Write": d}),
            Op::WriteAll(d) => json!({"WriteAll": d}),
            Op::Read(n) => json!({"Read": n}),
            Op::ReadExact(n) => json!({"ReadExact": n}),
            Op::SeekStart(p) => json!({"SeekStart": p.to_string()}),
            Op::SeekCurrent(p) => json!({"SeekCurrent": p.to_string()}),
            Op::SeekEnd(p) => json!({"SeekEnd": p.to_string()}),
            Op::SetPosition(p) => json!({"SetPosition": p.to_string()}),
            Op::PokeMut(i, x) => json!({"PokeMut": [i, x]}),
            Op::WriteV(b) => json!({"WriteV": b}),
            o => json!(format!("{:?}", o)),
        })
        .collect::<Vec<_>>())
}

pub fn ops_from_json(v: &Value) -> Vec<Op> {
    let mut out = vec![];
    for o in v.as_array().cloned().unwrap_or_default() {
        if let Some(s) = o.as_str() {
            out.push(match s {
                "Flush" => Op::Flush,
                "Position" => Op::Position,
                "Len" => Op::Len,
                "AsBytes" => Op::AsBytes,
                "CloneSwap" => Op::CloneSwap,
                _ => Op::StreamPosition,
            });
        } else if let Some(m) = o.as_object() {
            let (k, val) = m.iter().next().unwrap();
            let bytes = || val.as_array().map(|a| a.iter().map(|x| x.as_u64().unwrap_or(0) as u8).collect::<Vec<u8>>()).unwrap_or_default();
            let num = || val.as_str().unwrap_or("0").to_string();
            out.push(match k.as_str() {
                "Write" => Op::Write(bytes()),
                "WriteAll" => Op::WriteAll(bytes()),
                "Read" => Op::Read(val.as_u64().unwrap_or(0) as usize),
                "ReadExact" => Op::ReadExact(val.as_u64().unwrap_or(0) as usize),
                "SeekStart" => Op::SeekStart(num().parse().unwrap_or(0)),
                "SeekCurrent" => Op::SeekCurrent(num().parse().unwrap_or(0)),
                "SeekEnd" => Op::SeekEnd(num().parse().unwrap_or(0)),
                "PokeMut" => Op::PokeMut(val[0].as_u64().unwrap_or(0) as usize, val[1].as_u64().unwrap_or(1) as u8),
                "WriteV" => Op::WriteV(val.as_array().map(|a| a.iter().map(|b| b.as_array().map(|x| x.iter().map(|y| y.as_u64().unwrap_or(0) as u8).collect()).unwrap_or_default()).collect()).unwrap_or_default()),
                _ => Op::SetPosition(num().parse().unwrap_or(0)),
            });
        }
    }
    out
}

/// Whole-property run (invoked once, not per subject).
pub fn run(tier: Tier, seed: u64, replay: Option<&Value>) -> Report {
    let mut rep = Report::default();
    if let Some(r) = replay {
        let ops = ops_from_json(&r["env"]["ops"]);
        let align = r["env"]["align_index"].as_u64().unwrap_or(3) as usize;
        let cap = r["env"]["capacity"].as_u64().map(|c| c as usize);
        rep.evaluations += 1;
        if let Err(e) = run_with(align, &ops, cap) {
            rep.failures.push(fail(align, &ops, cap, e));
        }
        return rep;
    }
    let cases = if tier == Tier::Thorough { 20000 } else { 2500 };
    for (ai, aname) in ALIGNMENTS.iter().enumerate() {
        let s = vmodel::mix_seed(&["C19", aname], seed);
        let mut runner = TestRunner::new(Config { cases, failure_persistence: None, rng_seed: RngSeed::Fixed(s), max_shrink_iters: 20000, ..Config::default() });
        let strat = (prop::collection::vec(op_strategy(), 0..60), prop::option::of(0usize..200));
        let failed = std::cell::Cell::new(false);
        let cell = std::cell::RefCell::new(std::mem::take(&mut rep));
        let result = runner.run(&strat, |(ops, cap)| {
            let r = run_with(ai, &ops, cap);
            if !failed.get() {
                let mut rep = cell.borrow_mut();
                rep.evaluations += 1;
                rep.class(&format!("align-{}", aname));
                rep.class(&format!("len-{}", if ops.len() < 10 { "lt10" } else if ops.len() < 30 { "lt30" } else { "ge30" }));
                if let Ok((skipped, wpe)) = &r {
                    if *wpe {
                        rep.class("write-past-end");
                        use std::hash::{Hash, Hasher};
                        let mut h = std::collections::hash_map::DefaultHasher::new();
                        (ai, &ops, cap).hash(&mut h);
                        rep.nontrivial.insert(vmodel::mix_seed(&[], h.finish()));
                        if rep.samples.len() < 6 + ai {
                            let shown = ops_to_json(&ops[..ops.len().min(12)]);
                            rep.sample(json!({"alignment": aname, "capacity": cap, "ops_prefix": shown, "n_ops": ops.len()}));
                        }
                    }
                    if *skipped > 0 {
                        rep.class_n("writes-skipped-at-huge-position", *skipped as u64);
                    }
                }
            }
            match r {
                Ok(_) => Ok(()),
                Err(e) => {
                    failed.set(true);
                    Err(TestCaseError::fail(e))
                }
            }
        });
        rep = cell.into_inner();
        if let Err(TestError::Fail(reason, (ops, cap))) = result {
            let msg = run_with(ai, &ops, cap).err().unwrap_or_else(|| reason.to_string());
            rep.failures.push(fail(ai, &ops, cap, msg));
        }
    }
    // long random histories
    let long_cases = if tier == Tier::Thorough { 200 } else { 24 };
    let s = vmodel::mix_seed(&["C19", "long"], seed);
    let mut runner = TestRunner::new(Config { cases: long_cases, failure_persistence: None, rng_seed: RngSeed::Fixed(s), max_shrink_iters: 5000, ..Config::default() });
    let strat = (0usize..ALIGNMENTS.len(), prop::collection::vec(op_strategy(), 500..1500));
    let failed = std::cell::Cell::new(false);
    let cell = std::cell::RefCell::new(std::mem::take(&mut rep));
    let result = runner.run(&strat, |(ai, ops)| {
        let r = run_with(ai, &ops, None);
        if !failed.get() {
            let mut rep = cell.borrow_mut();
            rep.evaluations += 1;
            rep.class("long-history");
        }
        r.map(|_| ()).map_err(|e| {
            failed.set(true);
            TestCaseError::fail(e)
        })
    });
    rep = cell.into_inner();
    if let Err(TestError::Fail(reason, (ai, ops))) = result {
        let msg = run_with(ai, &ops, None).err().unwrap_or_else(|| reason.to_string());
        rep.failures.push(fail(ai, &ops, None, msg));
    }
    rep
}

fn fail(ai: usize, ops: &[Op], cap: Option<usize>, msg: String) -> Failure {
    let sig = if msg.contains("panicked") {
        format!("cursor-panic:{}", super::panic_class(msg.split("panicked: ").nth(1).unwrap_or("")))
    } else {
        "cursor-diverges".to_string()
    };
    Failure {
        property: "C19".into(),
        subject: format!("AlignedCursor<{}>", ALIGNMENTS[ai]),
        subject_index: ai,
        val: None,
        env: json!({"align_index": ai, "capacity": cap, "ops": ops_to_json(ops)}),
        message: format!("{} (history of {} operations: {})", msg, ops.len(), ops.iter().map(short).collect::<Vec<_>>().join("; ")),
        signature: sig,
    }
}
