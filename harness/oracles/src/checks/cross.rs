//! C04: bytes written as one type are never accepted as a different type. Whole-universe check.

use super::*;
use crate::faults::Placed;
use crate::report::Failure;
use crate::seq::SeqEntry;
use std::collections::BTreeMap;
use vmodel::val::GenCfg;

struct Info {
    th: u64,
    ah: u64,
    dt: String,
    dl: String,
}

fn fail(prop: &str, a: &dyn DynSubject, b: &dyn DynSubject, sig: &str, msg: String, val: Option<Val>) -> Failure {
    Failure {
        property: prop.to_string(),
        subject: format!("{}  |  {}", a.name(), b.name()),
        subject_index: a.index(),
        val,
        env: json!({"t": a.index(), "u": b.index(), "t_name": a.name(), "u_name": b.name()}),
        message: msg,
        signature: sig.to_string(),
    }
}

pub fn run(ctx: &Ctx, subjects: &[Box<dyn DynSubject>], seqs: &[SeqEntry], only_pair: Option<(usize, usize)>) -> Report {
    let mut rep = Report::default();
    let u = ctx.u;
    let n = subjects.len();
    let infos: Vec<Info> = (0..n)
        .map(|i| {
            let (th, ah) = subjects[i].hashes();
            Info { th, ah, dt: ctx.model.descr_type(&u.subjects[i]), dl: ctx.model.descr_layout(&u.subjects[i]) }
        })
        .collect();
    let under_bound = |i: usize| ctx.model.has_zero_adt_under_bound(&u.subjects[i]);
    // ---- (1) grouping: same hashes <=> same description, over all unordered pairs
    if only_pair.is_none() {
        let mut n_diff = 0u64;
        for i in 0..n {
            for j in i + 1..n {
                rep.evaluations += 1;
                let (a, b) = (&infos[i], &infos[j]);
                let same_t = a.dt == b.dt;
                if !same_t || a.dl != b.dl {
                    n_diff += 1;
                }
                if same_t != (a.th == b.th) {
                    let (sig, msg) = if same_t {
                        ("type-hash-spurious-difference", "have the same serialized structure but different type hashes")
                    } else {
                        ("type-hash-collision", "differ in structure (names, order, field types, arguments, constants, kinds) but share the type hash")
                    };
                    rep.failures.push(fail(&ctx.prop, &*subjects[i], &*subjects[j], sig, format!("{} and {} {}", subjects[i].name(), subjects[j].name(), msg), None));
                    continue;
                }
                if same_t && (a.dl == b.dl) != (a.ah == b.ah) {
                    let (sig, msg) = if a.dl == b.dl {
                        ("align-hash-spurious-difference".to_string(), "have the same zero-copy layout but different alignment hashes")
                    } else if under_bound(i) || under_bound(j) {
                        ("align-hash-collision:under-Bound".to_string(), "differ only in zero-copy memory layout (size / repr attributes / padding) below a Bound, yet share both hashes")
                    } else {
                        ("align-hash-collision".to_string(), "differ only in zero-copy memory layout (size / repr attributes / padding), yet share both hashes")
                    };
                    rep.failures.push(fail(&ctx.prop, &*subjects[i], &*subjects[j], &sig, format!("{} and {} {}", subjects[i].name(), subjects[j].name(), msg), None));
                }
            }
        }
        rep.class_n("pairs-with-different-description", n_diff);
        rep.class_n("pairs-with-equal-description", rep.evaluations - n_diff);
    }
    // ---- (2) cross deserialization of near-miss pairs and a sample of arbitrary pairs
    let mut pairs: Vec<(usize, usize, &str)> = vec![];
    if let Some((i, j)) = only_pair {
        pairs.push((i, j, "replay"));
    } else {
        for (i, j) in &u.pairs {
            pairs.push((*i, *j, "near-miss"));
            pairs.push((*j, *i, "near-miss"));
        }
        let extra = if ctx.tier == Tier::Thorough { 3000 } else { 600 };
        let mut x = vmodel::mix_seed(&["C04-pairs"], ctx.seed);
        for _ in 0..extra {
            x = vmodel::mix_seed(&[], x);
            let (i, j) = ((x >> 8) as usize % n, (x >> 36) as usize % n);
            if i != j {
                pairs.push((i, j, "random"));
            }
        }
    }
    let n_vals = if ctx.tier == Tier::Thorough { 8 } else { 3 };
    let mut seen_mut: BTreeMap<String, u64> = BTreeMap::new();
    for (i, j, kind) in pairs {
        let (t, uu) = (&*subjects[i], &*subjects[j]);
        let (a, b) = (&infos[i], &infos[j]);
        let strat = strategy_for(ctx, &u.subjects[i], GenCfg { max_len: 4, long: false });
        let vals = crate::runner::sample_vals(ctx, &["C04", t.name(), uu.name()], &strat, n_vals);
        if kind == "near-miss" {
            // which mutation relates the two
            for ty in [&u.subjects[i], &u.subjects[j]] {
                if let Some(m) = mutation_of(u, ty) {
                    *seen_mut.entry(m).or_default() += 1;
                }
            }
        }
        for v in vals {
            rep.evaluations += 2;
            let differs = a.dt != b.dt || a.dl != b.dl;
            if differs {
                rep.nontrivial.insert(crate::report::hash_case(&[t.name(), uu.name()], &v, 0));
            }
            rep.class(if a.dt != b.dt { "cross:type-level-difference" } else if a.dl != b.dl { "cross:layout-only-difference" } else { "cross:same-structure" });
            // Two types that must be told apart but share both hashes: the header check cannot refuse, and parsing
            // the bytes of one as the other is not attempted (an invalid discriminant or an absurd length there can
            // take the whole process down). The collision itself is the counterexample.
            if differs && a.th == b.th && a.ah == b.ah {
                let sig = if a.dt != b.dt {
                    "cross-type-not-refused"
                } else if under_bound(i) || under_bound(j) {
                    "align-hash-collision:under-Bound"
                } else {
                    "cross-layout-not-refused"
                };
                let what = if a.dt != b.dt { "WrongTypeHash" } else { "WrongAlignHash" };
                rep.failures.push(fail(&ctx.prop, t, uu, sig, format!("bytes of {} read as {}: expected {}, but both hashes coincide ({:x}, {:x}), so the header check accepts them", t.name(), uu.name(), what, a.th, a.ah), Some(v.clone())));
                break;
            }
            let Ok((bytes, _)) = ser_bytes(t, &v) else { continue };
            if rep.samples.len() < 10 && kind == "near-miss" {
                rep.sample(json!({"written_as": t.name(), "read_as": uu.name(), "value": v.show(), "expected": if a.dt != b.dt { "WrongTypeHash" } else if a.dl != b.dl { "WrongAlignHash" } else { "accepted, same value" }}));
            }
            let pl = Placed::new(&bytes, 16384, 0);
            let full = guard(|| uu.full(&mut std::io::Cursor::new(&bytes[..])));
            let eps = guard(|| uu.eps(pl.bytes()).map(|o| o.val));
            // the same bytes with the recorded type *name* replaced by the reader's own (what a recompiled
            // program with an edited definition would find): the verdict must not depend on the name
            // (only where the header check must refuse: if the two hashes collide, which the plain reads
            // above already report, the shifted value part would be parsed)
            let mut modes = vec![("full", full), ("eps", eps)];
            if differs && !(a.th == b.th && a.ah == b.ah) {
                let renamed = rename_stream(&bytes, uu.std_type_name());
                let plr = Placed::new(&renamed, 16384, 0);
                modes.push(("full, type name in the stream set to the reader's", guard(|| uu.full(&mut std::io::Cursor::new(&renamed[..])))));
                modes.push(("eps, type name in the stream set to the reader's", guard(|| uu.eps(plr.bytes()).map(|o| o.val))));
                rep.evaluations += 2;
            }
            for (mode, r) in modes {
                let hashes_collide = a.th == b.th && a.ah == b.ah;
                let verdict: Result<(), (String, String)> = if a.dt != b.dt {
                    match &r {
                        Ok(Err(deser::Error::WrongTypeHash { ser_type_hash, self_type_hash, .. })) if *ser_type_hash == a.th && *self_type_hash == b.th => Ok(()),
                        other => Err(("cross-type-not-refused".into(), format!("expected WrongTypeHash({:x},{:x}), got {}", a.th, b.th, show(other)))),
                    }
                } else if a.dl != b.dl {
                    match &r {
                        Ok(Err(deser::Error::WrongAlignHash { ser_align_hash, self_align_hash, .. })) if *ser_align_hash == a.ah && *self_align_hash == b.ah => Ok(()),
                        other => {
                            let sig = if hashes_collide && (under_bound(i) || under_bound(j)) { "align-hash-collision:under-Bound" } else { "cross-layout-not-refused" };
                            Err((sig.into(), format!("expected WrongAlignHash, got {}", show(other))))
                        }
                    }
                } else {
                    match &r {
                        Ok(Ok(x)) if *x == v => Ok(()),
                        other => Err(("same-structure-not-accepted".into(), format!("types with the same serialized structure must be interchangeable, got {}", show(other)))),
                    }
                };
                if let Err((sig, msg)) = verdict {
                    let mut f = fail(&ctx.prop, t, uu, &sig, format!("bytes of {} read as {} ({}): {}", t.name(), uu.name(), mode, msg), Some(v.clone()));
                    f.env["mode"] = json!(mode);
                    rep.failures.push(f);
                    break;
                }
            }
        }
    }
    for (m, c) in seen_mut {
        rep.class_n(&format!("mutation: {}", m), c);
    }
    // ---- (3) slice reference / iterator wrapper / vector share both hashes
    if only_pair.is_none() {
        for e in seqs {
            let v = vmodel::val::min_val(u, &u.subjects[e.subject_index]);
            if let Ok(Ok(st)) = guard(|| (e.streams)(&v)) {
                rep.evaluations += 1;
                let s = &*subjects[e.subject_index];
                if st.slice.get(13..29) != st.vec.get(13..29) || st.iter.as_ref().map_or(false, |i| i.get(13..29) != st.vec.get(13..29)) {
                    rep.failures.push(fail(&ctx.prop, s, s, "interchangeable-hashes-differ", format!("slice reference / iterator wrapper of {} do not share the vector's hashes", s.name()), None));
                }
            }
        }
    }
    // de-duplicate by signature + subject pair, keep the list readable
    rep.failures.sort_by(|a, b| (a.signature.clone(), a.subject.len()).cmp(&(b.signature.clone(), b.subject.len())));
    rep.failures.dedup_by(|a, b| a.signature == b.signature && a.subject == b.subject);
    rep
}

/// Replace the length-prefixed type name in a stream's header by `new_name`. Only used for pairs that must
/// be refused by the header check, so the shift of the value part does not matter.
pub fn rename_stream(bytes: &[u8], new_name: &str) -> Vec<u8> {
    let fixed = vmodel::format::FIXED_HEADER;
    if bytes.len() < fixed + 8 {
        return bytes.to_vec();
    }
    let old_len = usize::from_ne_bytes(bytes[fixed..fixed + 8].try_into().unwrap());
    if bytes.len() < fixed + 8 + old_len {
        return bytes.to_vec();
    }
    let mut out = bytes[..fixed].to_vec();
    out.extend_from_slice(&new_name.len().to_ne_bytes());
    out.extend_from_slice(new_name.as_bytes());
    out.extend_from_slice(&bytes[fixed + 8 + old_len..]);
    out
}

fn show(r: &Result<deser::Result<Val>, String>) -> String {
    match r {
        Err(p) => format!("a panic ({})", p),
        Ok(Ok(v)) => format!("a value: {}", v.show()),
        Ok(Err(e)) => format!("{}", err_name(e)),
    }
}

fn mutation_of(u: &vmodel::ty::Universe, t: &Ty) -> Option<String> {
    match t {
        Ty::Adt(i, args) => u.adts[*i].mutation.clone().or_else(|| {
            args.iter().find_map(|a| match a {
                vmodel::ty::Arg::Ty(t) => mutation_of(u, t),
                _ => None,
            })
        }),
        Ty::Phantom(e) => mutation_of(u, e),
        Ty::Prim(_) | Ty::String | Ty::BoxStr | Ty::RangeFull | Ty::Param(_) => None,
        _ => u.components(t).iter().find_map(|c| mutation_of(u, c)),
    }
}
