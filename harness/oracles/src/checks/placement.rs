//! C12: placement of the stream in memory.

use super::basic::traced;
use super::*;
use crate::faults::Placed;
use crate::trace::Event;
use vmodel::format::pad_to;
use vmodel::val::GenCfg;

pub fn c12(ctx: &Ctx, subj: &dyn DynSubject, ty: &Ty, rep: &mut Report) {
    let strat = strategy_for(ctx, ty, GenCfg { max_len: 6, long: false });
    crate::runner::run_cases_pre(ctx, subj, rep, &sweep_vals(ctx, ty), strat, ctx.cases, &|v, log| {
        self_check(subj, v)?;
        let (bytes, events) = traced(subj, v)?;
        // every alignment the serializer performed: (aligned stream position, unit)
        let aligns: Vec<(usize, usize)> = events
            .iter()
            .filter_map(|e| match e {
                Event::Align { pos, unit } if *unit > 0 => Some((pos + pad_to(*pos, *unit), *unit)),
                _ => None,
            })
            .collect();
        let max_unit = aligns.iter().map(|a| a.1).max().unwrap_or(1);
        log.classes.push(format!("max-unit-{}", max_unit));
        log.sample = Some(sample_json(subj, v, Some(&bytes), json!({"aligns": aligns.iter().take(8).collect::<Vec<_>>(), "residues": "0..128"})));
        let mut predicted_fail = 0;
        for r in 0..128usize {
            let pl = Placed::new(&bytes, 128, r);
            let base = pl.addr();
            let ok = aligns.iter().all(|(p, u)| (base + p) % u == 0);
            log.extra_evals += 1;
            if !ok {
                predicted_fail += 1;
                log.extra_nontrivial.push(hash_sub(subj.name(), v, "c12", r as u64, 0));
            }
            match guard(|| subj.eps(pl.bytes())) {
                Err(p) => return Err(Fail::new(&format!("place-panic:{}", panic_class(&p)), format!("base residue {}: deserialize_eps panicked: {}", r, p)).env(json!({"residue": r}))),
                Ok(Ok(o)) => {
                    if !ok {
                        return Err(Fail::new("place-accepted-misaligned", format!("base residue {} puts a block off its unit, but deserialize_eps succeeded", r)).env(json!({"residue": r})));
                    }
                    if o.val != *v {
                        return Err(Fail::new("place-mismatch", format!("base residue {}: value differs: {}", r, o.val.show())).env(json!({"residue": r})));
                    }
                    for (i, b) in o.borrows.iter().enumerate() {
                        if b.align > 0 && b.ptr % b.align != 0 {
                            return Err(Fail::new("place-misaligned-borrow", format!("base residue {}: borrow #{} at {:#x} is misaligned for alignment {}", r, i, b.ptr, b.align)).env(json!({"residue": r})));
                        }
                    }
                }
                Ok(Err(deser::Error::AlignmentError)) => {
                    if ok {
                        return Err(Fail::new("place-refused-aligned", format!("base residue {} aligns every block, but deserialize_eps returned AlignmentError", r)).env(json!({"residue": r})));
                    }
                }
                Ok(Err(e)) => return Err(Fail::new(&format!("place-error:{}", err_name(&e)), format!("base residue {}: unexpected error {:?}", r, e)).env(json!({"residue": r}))),
            }
        }
        // alignment units beyond the residue sweep: the buffer at every multiple of 64 up to twice the largest unit
        // (a 8192-byte unit on a page boundary that is 4096 modulo 8192, a 256-byte unit at 128 modulo 256, ...)
        if max_unit > 128 {
            let span = 2 * max_unit.next_power_of_two();
            let mut offs: Vec<usize> = (0..span).step_by(64.max(span / 64)).collect();
            offs.extend([max_unit / 2, max_unit, max_unit + max_unit / 2, 4096 % span, (4096 + max_unit / 2) % span]);
            offs.sort();
            offs.dedup();
            for off in offs {
                let pl = Placed::new(&bytes, span, off);
                let base = pl.addr();
                let ok = aligns.iter().all(|(p, u)| (base + p) % u == 0);
                log.extra_evals += 1;
                if !ok {
                    predicted_fail += 1;
                    log.extra_nontrivial.push(hash_sub(subj.name(), v, "c12-wide", off as u64, 0));
                }
                let env = json!({"offset": off, "span": span});
                match guard(|| subj.eps(pl.bytes())) {
                    Err(p) => return Err(Fail::new(&format!("place-panic:{}", panic_class(&p)), format!("buffer at {} modulo {}: deserialize_eps panicked: {}", off, span, p)).env(env)),
                    Ok(Ok(o)) => {
                        if !ok {
                            return Err(Fail::new("place-accepted-misaligned", format!("buffer at {} modulo {} puts a block off its unit (largest unit {}), but deserialize_eps succeeded", off, span, max_unit)).env(env));
                        }
                        if o.val != *v {
                            return Err(Fail::new("place-mismatch", format!("buffer at {} modulo {}: value differs: {}", off, span, o.val.show())).env(env));
                        }
                    }
                    Ok(Err(deser::Error::AlignmentError)) => {
                        if ok {
                            return Err(Fail::new("place-refused-aligned", format!("buffer at {} modulo {} aligns every block, but deserialize_eps returned AlignmentError", off, span)).env(env));
                        }
                    }
                    Ok(Err(e)) => return Err(Fail::new(&format!("place-error:{}", err_name(&e)), format!("buffer at {} modulo {}: unexpected error {:?}", off, span, e)).env(env)),
                }
            }
            log.classes.push("wide-unit-placements".into());
        }
        log.nontrivial = predicted_fail > 0;
        if predicted_fail == 0 {
            log.classes.push("byte-aligned-only".into());
        }
        Ok(())
    });
}
