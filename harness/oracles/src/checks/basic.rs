//! C01 (full-copy round trip), C02 (ε-copy round trip), C03 (borrows in place, allocation law).

use super::*;
use crate::faults::Placed;
use crate::trace::Event;
use vmodel::val::GenCfg;

pub fn c01(ctx: &Ctx, subj: &dyn DynSubject, ty: &Ty, rep: &mut Report) {
    let strat = strategy_for(ctx, ty, GenCfg::default());
    crate::runner::run_cases_pre(ctx, subj, rep, &sweep_vals(ctx, ty), strat, ctx.cases, &|v, log| {
        self_check(subj, v)?;
        let s = classify(ctx, ty, v, log);
        log.nontrivial = s.nonempty_seq || s.nonfirst_variant || s.nondefault_prim;
        let (bytes, _) = ser_bytes(subj, v)?;
        log.sample = Some(sample_json(subj, v, Some(&bytes), Value::Null));
        match full_of(subj, &bytes) {
            Err(p) => Err(Fail::new(&format!("full-panic:{}", panic_class(&p)), format!("deserialize_full panicked on the bytes just serialized: {}", p))),
            Ok(Err(e)) => Err(Fail::new(&format!("full-error:{}", err_name(&e)), format!("deserialize_full failed on the bytes just serialized: {:?}", e))),
            Ok(Ok(v2)) => {
                if v2 != *v {
                    return Err(Fail::new("full-mismatch", format!("full-copy round trip changed the value: got {}", v2.show())));
                }
                // composition: the value written twice on one writer (through one `&mut dyn Write`) is read back twice
                // from one reader, each stream being self-contained
                if bytes.len() <= 1 << 16 {
                    let mut two: Vec<u8> = Vec::new();
                    let wrote = guard(|| {
                        let w: &mut dyn std::io::Write = &mut two;
                        subj.ser(v, w).and_then(|a| subj.ser(v, w).map(|b| (a, b)))
                    });
                    log.extra_evals += 1;
                    match wrote {
                        Ok(Ok((a, b))) if a == bytes.len() && b == bytes.len() && two.len() == 2 * bytes.len() => {}
                        other => return Err(Fail::new("two-in-one-write", format!("the value serialized twice on the same writer: counts {:?}, {} bytes written, one stream has {}", other.map(|r| r.map_err(|e| format!("{:?}", e))), two.len(), bytes.len()))),
                    }
                    let mut cur = std::io::Cursor::new(&two[..]);
                    for n in 0..2 {
                        match guard(|| subj.full(&mut cur)) {
                            Ok(Ok(x)) if x == *v && cur.position() as usize == (n + 1) * bytes.len() => {}
                            other => return Err(Fail::new("two-in-one-read", format!("two streams of the value on one reader: reading stream #{} gave {:?} (reader at {} of {})", n, other.map(|r| r.map(|x| x.show()).map_err(|e| format!("{:?}", e))), cur.position(), two.len()))),
                        }
                    }
                }
                Ok(())
            }
        }
    });
}

/// largest alignment unit the *serializer* used for this value (at least 1)
pub fn real_max_unit(events: &[Event]) -> usize {
    events
        .iter()
        .map(|e| match e {
            Event::Align { unit, .. } => *unit,
            Event::Block { unit, .. } => *unit,
        })
        .max()
        .unwrap_or(1)
        .max(1)
}

pub fn traced(subj: &dyn DynSubject, v: &Val) -> Result<(Vec<u8>, Vec<Event>), Fail> {
    let mut out: Vec<u8> = Vec::new();
    match guard(|| subj.ser_traced(v, &mut out)) {
        Err(p) => Err(Fail::new(&format!("ser-panic:{}", panic_class(&p)), format!("serialization (traced) panicked: {}", p))),
        Ok((Err(e), _)) => Err(Fail::new("ser-error", format!("serialization (traced) failed: {:?}", e))),
        Ok((Ok(()), ev)) => Ok((out, ev)),
    }
}

fn eps_check(subj: &dyn DynSubject, buf: &[u8], v: &Val, what: &str) -> Result<crate::EpsOut, Fail> {
    match guard(|| subj.eps(buf)) {
        Err(p) => Err(Fail::new(&format!("eps-panic:{}", panic_class(&p)), format!("deserialize_eps panicked ({}): {}", what, p))),
        Ok(Err(e)) => Err(Fail::new(&format!("eps-error:{}", err_name(&e)), format!("deserialize_eps failed ({}): {:?}", what, e))),
        Ok(Ok(o)) => {
            if o.val != *v {
                Err(Fail::new("eps-mismatch", format!("ε-copy result differs from the original ({}): got {}", what, o.val.show())))
            } else {
                Ok(o)
            }
        }
    }
}

pub fn c02(ctx: &Ctx, subj: &dyn DynSubject, ty: &Ty, rep: &mut Report) {
    if !subj.deser_type_is_documented() {
        rep.failures.push(crate::report::Failure {
            property: ctx.prop.clone(),
            subject: subj.name().into(),
            subject_index: subj.index(),
            val: None,
            env: Value::Null,
            message: format!("DeserType of {} is not the documented substitution {}", subj.name(), ctx.model.deser_ty(ty)),
            signature: "desertype-mismatch".into(),
        });
        return;
    }
    let strat = strategy_for(ctx, ty, GenCfg::default());
    crate::runner::run_cases_pre(ctx, subj, rep, &sweep_vals(ctx, ty), strat, ctx.cases, &|v, log| {
        self_check(subj, v)?;
        let s = classify(ctx, ty, v, log);
        let (bytes, events) = traced(subj, v)?;
        let l = real_max_unit(&events);
        let l2 = l.next_power_of_two();
        let enc = model_enc(ctx, subj, ty, v)?;
        let borrowed_nonempty = enc.blocks.iter().any(|b| b.borrowed && b.len > 0);
        log.nontrivial = borrowed_nonempty || s.nonempty_seq;
        if borrowed_nonempty {
            log.classes.push("has-nonempty-borrow".into());
        }
        log.sample = Some(sample_json(subj, v, Some(&bytes), json!({"max_unit": l})));
        // (a) page-aligned placement
        let pa = Placed::new(&bytes, 16384, 0);
        let a = eps_check(subj, pa.bytes(), v, "page-aligned buffer")?;
        // (b) odd multiple of the largest unit
        let pb = Placed::new(&bytes, 2 * l2, l2);
        let b = eps_check(subj, pb.bytes(), v, "buffer at an odd multiple of the largest unit")?;
        let _ = (a, b);
        // agreement with full copy of the same bytes
        match full_of(subj, &bytes) {
            Ok(Ok(f)) if f == *v => Ok(()),
            Ok(Ok(f)) => Err(Fail::new("full-mismatch", format!("full-copy of the same bytes differs: {}", f.show()))),
            Ok(Err(e)) => Err(Fail::new(&format!("full-error:{}", err_name(&e)), format!("full-copy of the same bytes failed: {:?}", e))),
            Err(p) => Err(Fail::new(&format!("full-panic:{}", panic_class(&p)), format!("full-copy of the same bytes panicked: {}", p))),
        }
    });
}

pub fn c03(ctx: &Ctx, subj: &dyn DynSubject, ty: &Ty, rep: &mut Report) {
    let strat = strategy_for(ctx, ty, GenCfg::default());
    crate::runner::run_cases_pre(ctx, subj, rep, &sweep_vals(ctx, ty), strat, ctx.cases, &|v, log| {
        self_check(subj, v)?;
        let s = classify(ctx, ty, v, log);
        let (bytes, events) = traced(subj, v)?;
        let enc = model_enc(ctx, subj, ty, v)?;
        let l2 = real_max_unit(&events).next_power_of_two();
        let p = Placed::new(&bytes, l2.max(64), 0);
        let o = eps_check(subj, p.bytes(), v, "aligned exact-size buffer")?;
        let base = p.addr();
        // blocks the serializer actually wrote after the header
        let real: Vec<(usize, usize)> = events
            .iter()
            .filter_map(|e| match e {
                Event::Block { pos, len, .. } if *pos >= enc.header_len => Some((*pos, *len)),
                _ => None,
            })
            .collect();
        if real.len() != enc.blocks.len() {
            return Err(Fail::new(
                "trace-model-blocks",
                format!("serializer wrote {} zero-copy blocks after the header, reference model expects {}", real.len(), enc.blocks.len()),
            ));
        }
        let expected: Vec<(usize, usize, usize)> = real.iter().zip(&enc.blocks).filter(|(_, m)| m.borrowed).map(|(r, m)| (r.0, r.1, m.align)).collect();
        if o.borrows.len() != expected.len() {
            return Err(Fail::new(
                "borrow-count",
                format!("ε-copy result holds {} borrows, the documented substitution gives {}", o.borrows.len(), expected.len()),
            ));
        }
        let nonempty_borrow = expected.iter().any(|e| e.1 > 0);
        let has_copied = enc.blocks.iter().any(|b| !b.borrowed) || s.nodes > 1 + expected.len();
        log.nontrivial = nonempty_borrow;
        if nonempty_borrow && has_copied {
            log.classes.push("borrow+copied".into());
        }
        log.sample = Some(sample_json(subj, v, Some(&bytes), json!({"borrows": o.borrows.iter().map(|b| json!([b.ptr - base.min(b.ptr), b.len])).collect::<Vec<_>>() })));
        for (i, (b, e)) in o.borrows.iter().zip(&expected).enumerate() {
            if b.len != e.1 {
                return Err(Fail::new("borrow-len", format!("borrow #{} covers {} bytes, serializer wrote {}", i, b.len, e.1)));
            }
            if b.len > 0 || true {
                if b.ptr < base || b.ptr + b.len > base + bytes.len() {
                    return Err(Fail::new("borrow-out-of-buffer", format!("borrow #{} [{:#x},+{}) lies outside the input buffer [{:#x},+{})", i, b.ptr, b.len, base, bytes.len())));
                }
                if b.ptr - base != e.0 {
                    return Err(Fail::new("borrow-offset", format!("borrow #{} points at offset {}, the serializer wrote that data at {}", i, b.ptr - base, e.0)));
                }
            }
            if b.align > 0 && b.ptr % b.align != 0 {
                return Err(Fail::new("borrow-misaligned", format!("borrow #{} at {:#x} is not aligned to {}", i, b.ptr, b.align)));
            }
        }
        // other placements: whenever deserialization succeeds at a displaced base address, every borrow must
        // still be in the buffer, at the offset the serializer wrote it, and aligned for its element type
        for r in [1usize, 2, 4, 8, 12, 24, 40] {
            let pr = Placed::new(&bytes, 128, r);
            log.extra_evals += 1;
            match guard(|| subj.eps(pr.bytes())) {
                Ok(Ok(od)) => {
                    let b0 = pr.addr();
                    for (i, (b, e)) in od.borrows.iter().zip(&expected).enumerate() {
                        if b.align > 0 && b.ptr % b.align != 0 {
                            return Err(Fail::new("borrow-misaligned", format!("buffer displaced by {} bytes: borrow #{} at {:#x} is not aligned to {}", r, i, b.ptr, b.align)).env(json!({"residue": r})));
                        }
                        if b.ptr < b0 || b.ptr + b.len > b0 + bytes.len() || b.ptr - b0 != e.0 || b.len != e.1 {
                            return Err(Fail::new("borrow-offset", format!("buffer displaced by {} bytes: borrow #{} is [{}, +{}), the serializer wrote [{}, +{})", r, i, b.ptr.wrapping_sub(b0), b.len, e.0, e.1)).env(json!({"residue": r})));
                        }
                    }
                    log.classes.push("displaced-buffer-accepted".into());
                }
                Ok(Err(_)) => {}
                Err(p) => return Err(Fail::new(&format!("eps-panic:{}", panic_class(&p)), format!("buffer displaced by {} bytes: deserialize_eps panicked: {}", r, p)).env(json!({"residue": r}))),
            }
        }
        // metamorphic allocation law
        if crate::alloc::enabled() && nonempty_borrow {
            for k in [2usize, 5, 64] {
                if k == 64 && bytes.len() > 2048 {
                    continue;
                }
                let vk = ctx.model.scale(ty, v, k);
                let (bk, _) = ser_bytes(subj, &vk)?;
                let pk = Placed::new(&bk, l2.max(64), 0);
                let ok = eps_check(subj, pk.bytes(), &vk, "scaled payload")?;
                log.extra_evals += 1;
                if ok.allocs != o.allocs {
                    return Err(Fail::new(
                        "alloc-depends-on-borrowed-length",
                        format!(
                            "ε-copy allocated {} bytes in {} calls, but {} bytes in {} calls after multiplying borrowed payload lengths by {} (stream {} -> {} bytes)",
                            o.allocs.bytes, o.allocs.calls, ok.allocs.bytes, ok.allocs.calls, k, bytes.len(), bk.len()
                        ),
                    )
                    .env(json!({"scale": k})));
                }
            }
            log.classes.push("alloc-law-checked".into());
            // the same law for the loaders whose region is not heap memory: what `load_mmap` / `mmap` allocate on the
            // heap must not depend on how much borrowed payload the file holds (first cases of each subject only)
            if cfg!(feature = "mmap") && !light() && early_case(subj.index(), 6) {
                let path = ctx.tmp.join(format!("c03-{}-{:?}.bin", subj.index(), std::thread::current().id()).replace(['(', ')'], ""));
                let vk = ctx.model.scale(ty, v, 7);
                for loader in [crate::Loader::LoadMmap, crate::Loader::Mmap] {
                    let mut stats = vec![];
                    for val in [v, &vk, v] {
                        match guard(|| subj.store(val, &path)) {
                            Ok(Ok(())) => {}
                            _ => return Ok(()),
                        }
                        match guard(|| subj.load(loader, &path, 0, crate::Script::Direct)) {
                            Ok(Ok(o)) => stats.push(o.lib_allocs),
                            _ => return Ok(()),
                        }
                    }
                    log.extra_evals += 3;
                    // (first load may initialise lazily: compare the scaled load with the second plain one)
                    if stats[1].bytes > stats[2].bytes + 256 {
                        std::fs::remove_file(&path).ok();
                        return Err(Fail::new(
                            &format!("loader-alloc-depends-on-borrowed-length:{:?}", loader),
                            format!("{:?} allocated {} heap bytes in {} calls for this file, but {} bytes in {} calls after multiplying borrowed payload lengths by 7", loader, stats[2].bytes, stats[2].calls, stats[1].bytes, stats[1].calls),
                        )
                        .env(json!({"loader": format!("{:?}", loader)})));
                    }
                }
                std::fs::remove_file(&path).ok();
                log.classes.push("loader-alloc-law-checked".into());
            }
        }
        Ok(())
    });
}

thread_local! {
    static C03_CASES: std::cell::Cell<(usize, u32)> = const { std::cell::Cell::new((usize::MAX, 0)) };
}

/// True for the first `limit` cases that reach this point for the subject currently handled by this thread.
fn early_case(subject: usize, limit: u32) -> bool {
    C03_CASES.with(|c| {
        let (s, n) = c.get();
        let n = if s == subject { n } else { 0 };
        c.set((subject, n + 1));
        n < limit
    })
}
