//! C18: the recorded schema describes the bytes written.

use super::*;
use vmodel::val::GenCfg;

struct Row {
    field: String,
    offset: usize,
    size: usize,
    align: usize,
    padding: bool,
}

pub fn c18(ctx: &Ctx, subj: &dyn DynSubject, ty: &Ty, rep: &mut Report) {
    let strat = strategy_for(ctx, ty, GenCfg::default());
    crate::runner::run_cases_pre(ctx, subj, rep, &sweep_vals(ctx, ty), strat, ctx.cases, &|v, log| {
        self_check(subj, v)?;
        classify(ctx, ty, v, log);
        let (plain, _) = ser_bytes(subj, v)?;
        let enc = model_enc_fit(ctx, subj, ty, v, plain.len(), log)?;
        let mut a: Vec<u8> = Vec::new();
        let schema = match guard(|| subj.ser_schema(v, &mut a)) {
            Err(p) => return Err(Fail::new(&format!("schema-panic:{}", panic_class(&p)), format!("serialize_with_schema panicked: {}", p))),
            Ok(Err(e)) => return Err(Fail::new("schema-error", format!("serialize_with_schema failed: {:?}", e))),
            Ok(Ok(s)) => s,
        };
        if a.len() != plain.len() || (a.len() == enc.mask.len() && !same_masked(&enc, &a, &plain)) {
            return Err(Fail::new("schema-bytes-differ", format!("schema recording wrote {} bytes, plain serialization {} (or contents differ)", a.len(), plain.len())));
        }
        let rows: Vec<Row> = schema.0.iter().map(|r| Row { field: r.field.clone(), offset: r.offset, size: r.size, align: r.align, padding: r.field == "PADDING" }).collect();
        let n = rows.len();
        let is_ext = |child: &str, parent: &str| child.len() > parent.len() && child.starts_with(parent) && child.as_bytes()[parent.len()] == b'.';
        // composite = some later non-padding row (contiguously) extends the path
        let next_real = |i: usize| (i + 1..n).find(|j| !rows[*j].padding);
        let composite: Vec<bool> = (0..n).map(|i| !rows[i].padding && next_real(i).map_or(false, |j| is_ext(&rows[j].field, &rows[i].field))).collect();
        // (a) tiling by a running cursor
        let mut cursor = 0usize;
        let mut before = vec![0usize; n];
        let mut after = vec![0usize; n];
        for i in 0..n {
            let r = &rows[i];
            before[i] = cursor;
            if r.offset != cursor {
                return Err(Fail::new("schema-gap-or-overlap", format!("row {} ({}) starts at {}, but the rows before it end at {}", i, r.field, r.offset, cursor)));
            }
            if r.offset + r.size > a.len() {
                return Err(Fail::new("schema-out-of-stream", format!("row {} ({}) covers {}..{} of a {}-byte stream", i, r.field, r.offset, r.offset + r.size, a.len())));
            }
            if !composite[i] {
                cursor += r.size;
            }
            after[i] = cursor;
        }
        if cursor != a.len() {
            return Err(Fail::new("schema-incomplete", format!("leaf rows cover {} bytes of a {}-byte stream", cursor, a.len())));
        }
        // (b) parents precede children and contain them; composite extents equal their descendants' span
        let mut n_comp2 = 0;
        for i in 0..n {
            if rows[i].padding {
                continue;
            }
            if let Some(dot) = rows[i].field.rfind('.') {
                let parent = &rows[i].field[..dot];
                let Some(pi) = (0..i).rev().find(|j| rows[*j].field == parent) else {
                    return Err(Fail::new("schema-orphan", format!("row {} ({}) has no earlier parent row {}", i, rows[i].field, parent)));
                };
                let p = &rows[pi];
                if rows[i].offset < p.offset || rows[i].offset + rows[i].size > p.offset + p.size {
                    return Err(Fail::new("schema-not-contained", format!("row {} ({}) {}..{} is not inside its parent {}..{}", i, rows[i].field, rows[i].offset, rows[i].offset + rows[i].size, p.offset, p.offset + p.size)));
                }
            }
            if composite[i] {
                // descendants: following rows while non-padding rows extend the path
                let mut last = i;
                let mut kids = 0;
                let mut j = i + 1;
                while j < n {
                    if rows[j].padding {
                        j += 1;
                        continue;
                    }
                    if is_ext(&rows[j].field, &rows[i].field) {
                        last = j;
                        if rows[j].field[rows[i].field.len() + 1..].find('.').is_none() {
                            kids += 1;
                        }
                        j += 1;
                    } else {
                        break;
                    }
                }
                if kids >= 2 {
                    n_comp2 += 1;
                }
                // trailing padding rows may belong to this composite or to the next sibling
                let mut hi = last;
                while hi + 1 < n && rows[hi + 1].padding {
                    hi += 1;
                }
                let end = rows[i].offset + rows[i].size;
                if end < after[last] || end > after[hi] {
                    return Err(Fail::new("schema-composite-extent", format!("composite row {} ({}) ends at {}, its children end at {}", i, rows[i].field, end, after[last])));
                }
            }
        }
        // (c) padding rows and zero rows
        let mut n_pad = 0;
        for i in 0..n {
            let r = &rows[i];
            if r.padding {
                n_pad += 1;
                if r.size == 0 {
                    return Err(Fail::new("schema-empty-padding", format!("padding row {} is empty", i)));
                }
                if a[r.offset..r.offset + r.size].iter().any(|b| *b != 0) {
                    return Err(Fail::new("schema-padding-nonzero", format!("padding row {} covers non-zero bytes", i)));
                }
                let Some(z) = rows.get(i + 1).filter(|z| z.field.ends_with(".zero") || z.field == "zero") else {
                    return Err(Fail::new("schema-padding-not-before-block", format!("padding row {} is not followed by a zero-copy block row", i)));
                };
                if z.align == 0 || r.size >= z.align || (r.offset + r.size) % z.align != 0 {
                    return Err(Fail::new("schema-padding-extent", format!("padding row {} ({} bytes ending at {}) does not pad to the alignment {} of the next block", i, r.size, r.offset + r.size, z.align)));
                }
            } else if r.field.ends_with(".zero") {
                if r.align == 0 || !r.align.is_power_of_two() || r.offset % r.align != 0 {
                    return Err(Fail::new("schema-block-misaligned", format!("block row {} ({}) at {} with recorded alignment {}", i, r.field, r.offset, r.align)));
                }
            }
        }
        log.nontrivial = n_comp2 > 0 && n_pad > 0;
        if n_pad > 0 {
            log.classes.push("has-padding-row".into());
        }
        log.classes.push(format!("rows-{}", if n < 16 { "lt16" } else if n < 64 { "lt64" } else { "ge64" }));
        log.sample = Some(sample_json(subj, v, Some(&a), json!({"rows": n, "padding_rows": n_pad, "first_rows": rows.iter().take(12).map(|r| json!([r.field, r.offset, r.size, r.align])).collect::<Vec<_>>() })));
        // (e) the same through the lower-level API, on a writer that has already written something: the bytes must
        // be those of plain serialization on such a writer, and the rows must describe them where they are
        for plen in [3usize, 8, 13] {
            let prefix = vec![0xC3u8; plen];
            let mut with: Vec<u8> = Vec::new();
            let mut without: Vec<u8> = Vec::new();
            log.extra_evals += 1;
            let rs = guard(|| subj.ser_after_prefix(v, &prefix, true, &mut with));
            let rp = guard(|| subj.ser_after_prefix(v, &prefix, false, &mut without));
            let (Ok(Ok(Some(sch))), Ok(Ok(None))) = (rs, rp) else {
                return Err(Fail::new("schema-after-prefix-failed", format!("serializing after a {}-byte prefix on the same writer failed or panicked", plen)).env(json!({"prefix": plen})));
            };
            // padding inside zero-copy structs is uninitialised: compare lengths, and contents outside blocks
            if with.len() != without.len() || with[..plen] != without[..plen] {
                return Err(Fail::new("schema-after-prefix-bytes", format!("after a {}-byte prefix, recording the schema wrote {} bytes, plain serialization {}", plen, with.len(), without.len())).env(json!({"prefix": plen})));
            }
            let mut cur = plen;
            for (i, r) in sch.0.iter().enumerate() {
                if r.offset != cur {
                    return Err(Fail::new("schema-after-prefix-rows", format!("after a {}-byte prefix, row {} ({}) is recorded at {}, the bytes it describes start at {}", plen, i, r.field, r.offset, cur)).env(json!({"prefix": plen})));
                }
                let is_leaf = r.field == "PADDING" || !sch.0[i + 1..].iter().find(|x| x.field != "PADDING").map_or(false, |x| x.field.len() > r.field.len() && x.field.starts_with(&r.field) && x.field.as_bytes()[r.field.len()] == b'.');
                if is_leaf {
                    cur += r.size;
                }
                if r.field == "PADDING" && with[r.offset..(r.offset + r.size).min(with.len())].iter().any(|b| *b != 0) {
                    return Err(Fail::new("schema-after-prefix-rows", format!("after a {}-byte prefix, padding row {} covers non-zero bytes", plen, i)).env(json!({"prefix": plen})));
                }
            }
            if cur != with.len() {
                return Err(Fail::new("schema-after-prefix-rows", format!("after a {}-byte prefix, the rows cover up to {} of {} bytes", plen, cur, with.len())).env(json!({"prefix": plen})));
            }
        }
        // (d) renderings
        match guard(|| (schema.to_csv(), schema.debug(&a))) {
            Err(p) => return Err(Fail::new(&format!("schema-render-panic:{}", panic_class(&p)), format!("rendering the schema panicked: {}", p))),
            Ok((csv, dbg)) => {
                if csv.lines().count() != n + 1 {
                    return Err(Fail::new("schema-csv-lines", format!("to_csv has {} lines for {} rows", csv.lines().count(), n)));
                }
                if dbg.lines().count() < n + 1 {
                    return Err(Fail::new("schema-debug-lines", format!("debug has {} lines for {} rows", dbg.lines().count(), n)));
                }
            }
        }
        Ok(())
    });
}
