//! Calling contexts that do not depend on the type being (de)serialized, run once per property:
//!
//! * C13: a failing writer while the serialization runs inside a thread-local destructor at thread exit, in both
//!   orders of first use of the library and of that thread-local (anything the library keeps per thread may
//!   already be gone there; the outcome must still be a write error, not an abort);
//! * C14: a reader whose `read` itself serializes and deserializes a small value with the library before it
//!   delivers its bytes, and a reader that is fed by another thread which serializes each chunk first (the library
//!   must not hold anything across the calls to the user's reader). A watchdog turns a thread that is still
//!   blocked after a minute (for an operation of microseconds) into a failure.

use crate::report::{Failure, Report};
use epserde::prelude::*;
use serde_json::json;
use std::cell::RefCell;
use std::io::{Read, Write};
use std::sync::mpsc;
use std::time::Duration;

struct FailingWriter {
    left: usize,
}
impl Write for FailingWriter {
    fn write(&mut self, b: &[u8]) -> std::io::Result<usize> {
        if self.left == 0 {
            return Err(std::io::Error::new(std::io::ErrorKind::Other, "injected write failure"));
        }
        let n = b.len().min(self.left);
        self.left -= n;
        Ok(n)
    }
    fn flush(&mut self) -> std::io::Result<()> {
        Ok(())
    }
}

struct AtExit(Option<Box<dyn FnOnce() + Send>>);
impl Drop for AtExit {
    fn drop(&mut self) {
        if let Some(f) = self.0.take() {
            f()
        }
    }
}
thread_local! {
    static AT_EXIT: RefCell<Option<AtExit>> = const { RefCell::new(None) };
}

fn failure(prop: &str, sig: &str, msg: String) -> Failure {
    Failure { property: prop.into(), subject: "(calling context, any type)".into(), subject_index: 0, val: None, env: json!({"context": sig}), message: msg, signature: sig.into() }
}

pub fn c13_thread_exit(rep: &mut Report) {
    for (library_first, k) in [(true, 0usize), (false, 0), (true, 40), (false, 40)] {
        rep.evaluations += 1;
        rep.class("failing-writer-inside-thread-local-destructor");
        rep.nontrivial.insert(crate::report::hash_case(&["tls"], &vmodel::val::Val::Unit, library_first as u64 * 64 + k as u64));
        let (tx, rx) = mpsc::channel::<bool>();
        let h = std::thread::spawn(move || {
            let attempt = move || matches!(vec![1u64, 2, 3].serialize(&mut FailingWriter { left: k }), Err(epserde::ser::Error::WriteError));
            if library_first {
                let _ = attempt();
            }
            AT_EXIT.with(|c| {
                *c.borrow_mut() = Some(AtExit(Some(Box::new(move || {
                    let _ = tx.send(attempt());
                }))))
            });
            if !library_first {
                let _ = attempt();
            }
        });
        let joined = h.join();
        match rx.recv_timeout(Duration::from_secs(20)) {
            Ok(true) if joined.is_ok() => {}
            other => rep.failures.push(failure("C13", "write-fault-at-thread-exit", format!("a writer failing after {} bytes while the value is serialized from a thread-local destructor at thread exit (library used {} the destructor was registered): expected a write error, got {:?} / thread {:?}", k, if library_first { "before" } else { "after" }, other, joined.is_ok()))),
        }
    }
}

/// A writer that is itself a client of the library (it frames or checksums what it receives).
struct ReentrantWriter {
    got: Vec<u8>,
}
impl Write for ReentrantWriter {
    fn write(&mut self, b: &[u8]) -> std::io::Result<usize> {
        let mut inner = Vec::new();
        (b.len() as u64).serialize(&mut inner).map_err(|_| std::io::Error::new(std::io::ErrorKind::Other, "inner serialization failed"))?;
        let n = u64::deserialize_full(&mut std::io::Cursor::new(&inner[..])).map_err(|_| std::io::Error::new(std::io::ErrorKind::Other, "inner deserialization failed"))?;
        if n as usize != b.len() {
            return Err(std::io::Error::new(std::io::ErrorKind::Other, "inner round trip gave another value"));
        }
        self.got.extend_from_slice(b);
        Ok(b.len())
    }
    fn flush(&mut self) -> std::io::Result<()> {
        Ok(())
    }
}

/// Returns true if a thread is left blocked inside the library.
pub fn c13_writer_context(rep: &mut Report) -> bool {
    let value: Vec<u64> = (0..40u64).map(|i| i * 3 + 1).collect();
    let mut plain = Vec::new();
    value.serialize(&mut plain).unwrap();
    rep.evaluations += 1;
    rep.class("writer-that-is-a-client-of-the-library");
    rep.nontrivial.insert(crate::report::hash_case(&["writer-context"], &vmodel::val::Val::Unit, 0));
    let (tx, rx) = mpsc::channel();
    let v = value.clone();
    std::thread::spawn(move || {
        let mut w = ReentrantWriter { got: vec![] };
        let r = v.serialize(&mut w).map(|n| (n, w.got)).map_err(|e| format!("{:?}", e));
        let _ = tx.send(r);
    });
    match rx.recv_timeout(Duration::from_secs(60)) {
        Ok(Ok((n, got))) if n == plain.len() && got == plain => false,
        Ok(other) => {
            rep.failures.push(failure("C13", "writer-context-wrong-result", format!("a writer that uses the library inside write(): expected the fault-free bytes, got {:?}", other.map(|(n, g)| (n, g.len())))));
            false
        }
        Err(_) => {
            rep.failures.push(failure("C13", "writer-context-hang", "a writer that uses the library inside write(): serialize had not returned after 60 s: the library holds something across the calls to the writer".to_string()));
            true
        }
    }
}

struct Reentrant {
    data: Vec<u8>,
    pos: usize,
}
impl Read for Reentrant {
    fn read(&mut self, buf: &mut [u8]) -> std::io::Result<usize> {
        // a reader that is itself a client of the library (it unpacks frames, checks a trailer, ...)
        let mut inner = Vec::new();
        7u32.serialize(&mut inner).map_err(|_| std::io::Error::new(std::io::ErrorKind::Other, "inner serialization failed"))?;
        let x = u32::deserialize_full(&mut std::io::Cursor::new(&inner[..])).map_err(|_| std::io::Error::new(std::io::ErrorKind::Other, "inner deserialization failed"))?;
        if x != 7 {
            return Err(std::io::Error::new(std::io::ErrorKind::Other, "inner round trip gave another value"));
        }
        let n = buf.len().min(self.data.len() - self.pos).min(5);
        buf[..n].copy_from_slice(&self.data[self.pos..self.pos + n]);
        self.pos += n;
        Ok(n)
    }
}

struct Fed {
    rx: mpsc::Receiver<Vec<u8>>,
    cur: Vec<u8>,
}
impl Read for Fed {
    fn read(&mut self, buf: &mut [u8]) -> std::io::Result<usize> {
        if self.cur.is_empty() {
            match self.rx.recv() {
                Ok(c) => self.cur = c,
                Err(_) => return Ok(0),
            }
        }
        let n = buf.len().min(self.cur.len());
        buf[..n].copy_from_slice(&self.cur[..n]);
        self.cur.drain(..n);
        Ok(n)
    }
}

/// Returns true if a thread is left blocked (the caller must not use the library any more in this process).
pub fn c14_reader_contexts(rep: &mut Report) -> bool {
    let value: Vec<u64> = (0..40u64).map(|i| i * i + 1).collect();
    let mut bytes = Vec::new();
    value.serialize(&mut bytes).unwrap();
    let mut stuck = false;
    for which in ["reader that uses the library inside read()", "reader fed by a thread that serializes before each chunk"] {
        rep.evaluations += 1;
        rep.class("reader-that-is-a-client-of-the-library");
        rep.nontrivial.insert(crate::report::hash_case(&["reader-context", which], &vmodel::val::Val::Unit, 0));
        let (tx, rx) = mpsc::channel();
        let (b, v) = (bytes.clone(), value.clone());
        let reentrant = which.starts_with("reader that uses");
        std::thread::spawn(move || {
            let r = if reentrant {
                <Vec<u64>>::deserialize_full(&mut Reentrant { data: b, pos: 0 })
            } else {
                let (ctx, crx) = mpsc::channel::<Vec<u8>>();
                let feeder = std::thread::spawn(move || {
                    for c in b.chunks(7) {
                        // the producer is a client of the library too
                        let mut scratch = Vec::new();
                        let _ = (c.len() as u64).serialize(&mut scratch);
                        if ctx.send(c.to_vec()).is_err() {
                            break;
                        }
                    }
                });
                let r = <Vec<u64>>::deserialize_full(&mut Fed { rx: crx, cur: vec![] });
                let _ = feeder.join();
                r
            };
            let _ = tx.send(r.map(|x| x == v).map_err(|e| format!("{:?}", e)));
        });
        match rx.recv_timeout(Duration::from_secs(60)) {
            Ok(Ok(true)) => {}
            Ok(other) => rep.failures.push(failure("C14", "reader-context-wrong-result", format!("{}: expected the value, got {:?}", which, other))),
            Err(_) => {
                stuck = true;
                rep.failures.push(failure("C14", "reader-context-hang", format!("{}: deserialize_full had not returned after 60 s (the same call on an in-memory reader takes microseconds): the library holds something across the calls to the reader", which)));
                break;
            }
        }
    }
    stuck
}

/// A user type with hand-written implementations that themselves use the library (a side serialization and
/// deserialization inside `_serialize_inner` and inside both deserializers).
#[derive(Debug, Clone, PartialEq)]
pub struct ReentrantUser {
    pub x: u64,
    pub v: Vec<u16>,
}

impl CopyType for ReentrantUser {
    type Copy = Deep;
}
impl TypeHash for ReentrantUser {
    fn type_hash(h: &mut impl core::hash::Hasher) {
        use core::hash::Hash;
        "ReentrantUser".hash(h);
        u64::type_hash(h);
        <Vec<u16>>::type_hash(h);
    }
}
impl AlignHash for ReentrantUser {
    fn align_hash(h: &mut impl core::hash::Hasher, _off: &mut usize) {
        u64::align_hash(h, &mut 0);
        <Vec<u16>>::align_hash(h, &mut 0);
    }
}
fn side_trip(x: u64) -> Option<u64> {
    let mut side = Vec::new();
    (x ^ 0x5555).serialize(&mut side).ok()?;
    u64::deserialize_full(&mut std::io::Cursor::new(&side[..])).ok().map(|y| y ^ 0x5555)
}
impl SerializeInner for ReentrantUser {
    type SerType = Self;
    const IS_ZERO_COPY: bool = false;
    const ZERO_COPY_MISMATCH: bool = false;
    fn _serialize_inner(&self, backend: &mut impl ser::WriteWithNames) -> ser::Result<()> {
        let x = side_trip(self.x).ok_or(ser::Error::WriteError)?;
        backend.write("x", &x)?;
        backend.write("v", &self.v)
    }
}
impl DeserializeInner for ReentrantUser {
    type DeserType<'a> = ReentrantUser;
    fn _deserialize_full_inner(backend: &mut impl ReadWithPos) -> deser::Result<Self> {
        let x = u64::_deserialize_full_inner(backend)?;
        let x = side_trip(x).ok_or(deser::Error::ReadError)?;
        let v = <Vec<u16>>::_deserialize_full_inner(backend)?;
        Ok(ReentrantUser { x, v })
    }
    fn _deserialize_eps_inner<'a>(backend: &mut SliceWithPos<'a>) -> deser::Result<Self::DeserType<'a>> {
        let x = u64::_deserialize_full_inner(backend)?;
        let x = side_trip(x).ok_or(deser::Error::ReadError)?;
        let v = <Vec<u16>>::_deserialize_full_inner(backend)?;
        Ok(ReentrantUser { x, v })
    }
}

/// C01 / C02: a user implementation that re-enters the library, at top level and nested in library types.
pub fn c01_reentrant_user(rep: &mut Report, prop: &str) {
    let vals: Vec<Vec<ReentrantUser>> = vec![
        vec![],
        vec![ReentrantUser { x: 7, v: vec![1, 2, 3] }],
        (0..40u64).map(|i| ReentrantUser { x: i.wrapping_mul(0x9e37_79b9_7f4a_7c15), v: (0..(i % 5) as u16).collect() }).collect(),
    ];
    for v in vals {
        rep.evaluations += 1;
        rep.class("user-impl-that-reenters-the-library");
        rep.nontrivial.insert(crate::report::hash_case(&["reentrant-user"], &vmodel::val::Val::Unit, v.len() as u64));
        let r = crate::runner::guard(|| -> Result<(), String> {
            let mut c = <AlignedCursor<maligned::A64>>::new();
            v.serialize(&mut c).map_err(|e| format!("serialize: {:?}", e))?;
            let n = c.len();
            c.set_position(0);
            let f = <Vec<ReentrantUser>>::deserialize_full(&mut c).map_err(|e| format!("deserialize_full: {:?}", e))?;
            if f != v {
                return Err(format!("full copy gives {:?}", f));
            }
            let e = <Vec<ReentrantUser>>::deserialize_eps(&c.as_bytes()[..n]).map_err(|e| format!("deserialize_eps: {:?}", e))?;
            if e != v {
                return Err(format!("ε-copy gives {:?}", e));
            }
            Ok(())
        });
        let msg = match r {
            Ok(Ok(())) => continue,
            Ok(Err(e)) => e,
            Err(p) => format!("panicked: {}", p),
        };
        rep.failures.push(failure(prop, "reentrant-user-impl", format!("a vector of {} values of a user type whose hand-written implementations use the library themselves does not round-trip: {}", v.len(), msg)));
        return;
    }
}

/// C09: a loader called from a destructor while the thread is unwinding from an unrelated panic ("reload the index
/// when the worker dies"): the backing memory must stay allocated and unchanged until the structure is dropped, and
/// be released once, exactly as on an ordinary call.
pub fn c09_load_during_unwinding(rep: &mut Report, tmp: &std::path::Path) {
    use std::sync::{Arc, Mutex};
    let n = 5000u64;
    let value: Vec<u64> = (0..n).map(|i| i * 7 + 3).collect();
    let path = tmp.join(format!("c09-unwind-{}.bin", std::process::id()));
    if value.store(&path).is_err() {
        return;
    }
    let loaders: &[&str] = if cfg!(feature = "mmap") { &["load_full", "load_mem", "load_mmap", "mmap"] } else { &["load_full", "load_mem"] };
    for which in loaders {
        rep.evaluations += 1;
        rep.class("loader-called-from-a-destructor-during-unwinding");
        rep.nontrivial.insert(crate::report::hash_case(&["load-unwinding", which], &vmodel::val::Val::Unit, 0));
        struct Reload {
            path: std::path::PathBuf,
            which: &'static str,
            expect: Vec<u64>,
            out: Arc<Mutex<Option<Result<bool, String>>>>,
        }
        impl Drop for Reload {
            fn drop(&mut self) {
                let same = |s: &[u64], e: &[u64]| s == e;
                let churn = || {
                    // memory of the size of the region is allocated, dirtied and freed in between
                    for _ in 0..4 {
                        let junk = vec![0xAAu8; 40_064];
                        std::hint::black_box(&junk);
                    }
                };
                let r: Result<bool, String> = (|| match self.which {
                    "load_full" => {
                        let v = <Vec<u64>>::load_full(&self.path).map_err(|e| format!("{:#}", e))?;
                        Ok(same(&v, &self.expect))
                    }
                    "load_mem" => {
                        let c = <Vec<u64>>::load_mem(&self.path).map_err(|e| format!("{:#}", e))?;
                        let a = same(&c, &self.expect);
                        churn();
                        Ok(a && same(&c, &self.expect))
                    }
                    #[cfg(feature = "mmap")]
                    "load_mmap" => {
                        let c = <Vec<u64>>::load_mmap(&self.path, Flags::empty()).map_err(|e| format!("{:#}", e))?;
                        let a = same(&c, &self.expect);
                        churn();
                        Ok(a && same(&c, &self.expect))
                    }
                    #[cfg(feature = "mmap")]
                    "mmap" => {
                        let c = <Vec<u64>>::mmap(&self.path, Flags::empty()).map_err(|e| format!("{:#}", e))?;
                        let a = same(&c, &self.expect);
                        churn();
                        Ok(a && same(&c, &self.expect))
                    }
                    _ => Ok(true),
                })();
                *self.out.lock().unwrap() = Some(r);
            }
        }
        let out = Arc::new(Mutex::new(None));
        let heap0 = crate::alloc::live_bytes();
        let g = Reload { path: path.clone(), which, expect: value.clone(), out: out.clone() };
        let _ = std::panic::catch_unwind(std::panic::AssertUnwindSafe(move || {
            let _g = g;
            panic!("unrelated failure of the worker");
        }));
        let heap1 = crate::alloc::live_bytes();
        let got = out.lock().unwrap().take();
        match got {
            Some(Ok(true)) if !crate::alloc::enabled() || (heap1 - heap0).abs() < 4096 => {}
            other => {
                rep.failures.push(failure("C09", "loader-during-unwinding", format!("{} called from a destructor while the thread unwinds from an unrelated panic: expected the stored data, stable until dropped and released once; got {:?}, live heap changed by {} bytes", which, other, heap1 - heap0)));
                break;
            }
        }
    }
    std::fs::remove_file(&path).ok();
}
