//! C15: variant tags.

use super::*;
use crate::faults::Placed;
use vmodel::val::GenCfg;

pub fn c15(ctx: &Ctx, subj: &dyn DynSubject, ty: &Ty, rep: &mut Report) {
    let strat = with_entropy(strategy_for(ctx, ty, GenCfg { max_len: 4, long: false }), 96);
    let max_sites = if ctx.tier == Tier::Thorough { 12 } else { 4 };
    crate::runner::run_cases(ctx, subj, rep, strat, ctx.cases, &|case, log| {
        let (v, ent) = split_entropy(case);
        let mut ent = Ent::new(ent);
        self_check(subj, v)?;
        let (bytes, _) = ser_bytes(subj, v)?;
        // (whether the value holds a tagged sum at all is a property of the value, not of the stream's length)
        if model_enc(ctx, subj, ty, v)?.tags.is_empty() {
            return Ok(());
        }
        let enc = model_enc_fit(ctx, subj, ty, v, bytes.len(), log)?;
        // (1) every variant written maps back (both modes)
        for t in &enc.tags {
            log.classes.push(format!("variant:{}#{}", t.kind.split(' ').next().unwrap_or(""), t.value.min(20)));
        }
        match full_of(subj, &bytes) {
            Ok(Ok(x)) if x == *v => {}
            Ok(Ok(x)) => return Err(Fail::new("tag-roundtrip-full", format!("full copy maps the written tags to a different value: {}", x.show()))),
            Ok(Err(e)) => return Err(Fail::new(&format!("tag-roundtrip-full-error:{}", err_name(&e)), format!("full copy of valid tags failed: {:?}", e))),
            Err(p) => return Err(Fail::new(&format!("tag-roundtrip-full-panic:{}", panic_class(&p)), format!("full copy of valid tags panicked: {}", p))),
        }
        let pl = Placed::new(&bytes, 16384, 0);
        match guard(|| subj.eps(pl.bytes()).map(|o| o.val)) {
            Ok(Ok(x)) if x == *v => {}
            Ok(Ok(x)) => return Err(Fail::new("tag-roundtrip-eps", format!("ε-copy maps the written tags to a different value: {}", x.show()))),
            Ok(Err(e)) => return Err(Fail::new(&format!("tag-roundtrip-eps-error:{}", err_name(&e)), format!("ε-copy of valid tags failed: {:?}", e))),
            Err(p) => return Err(Fail::new(&format!("tag-roundtrip-eps-panic:{}", panic_class(&p)), format!("ε-copy of valid tags panicked: {}", p))),
        }
        // (2) foreign tags at a selection of sites (positions come from the format: not available if the stream
        // has another length, which C06 reports)
        if enc.tags.is_empty() {
            return Ok(());
        }
        let mut sites: Vec<usize> = vec![0, enc.tags.len() - 1];
        while sites.len() < max_sites.min(enc.tags.len()) + 2 {
            sites.push(ent.pick(enc.tags.len()));
        }
        sites.sort();
        sites.dedup();
        log.nontrivial = true;
        log.sample = Some(sample_json(subj, v, Some(&bytes), json!({"tag_sites": enc.tags.iter().take(6).map(|t| json!({"pos": t.pos, "width": t.width, "valid": t.n_valid, "kind": t.kind})).collect::<Vec<_>>() })));
        for &si in &sites {
            let site = &enc.tags[si];
            let foreign: Vec<usize> = if site.width == 1 {
                (site.n_valid..256).collect()
            } else {
                let mut f = vec![site.n_valid, site.n_valid + 1, 255, 256, 257, 1usize << 32, usize::MAX, usize::MAX - 1, 1usize << 63];
                for _ in 0..8 {
                    f.push(ent.u64() as usize);
                }
                f.retain(|t| *t >= site.n_valid);
                f
            };
            for t in foreign {
                let mut m = bytes.clone();
                if site.width == 1 {
                    m[site.pos] = t as u8;
                } else {
                    m[site.pos..site.pos + site.width].copy_from_slice(&t.to_ne_bytes());
                }
                log.extra_evals += 2;
                log.extra_nontrivial.push(hash_sub(subj.name(), v, "c15", si as u64, t as u64));
                let env = json!({"site": si, "pos": site.pos, "kind": site.kind, "tag": t});
                match guard(|| subj.full(&mut std::io::Cursor::new(&m[..]))) {
                    Ok(Err(deser::Error::InvalidTag(x))) if x == t => {}
                    Ok(Err(deser::Error::InvalidTag(x))) => return Err(Fail::new("foreign-tag-full-payload", format!("foreign tag {} at {} site (offset {}): full copy reports InvalidTag({})", t, site.kind, site.pos, x)).env(env)),
                    Ok(Err(e)) => return Err(Fail::new(&format!("foreign-tag-full-error:{}", err_name(&e)), format!("foreign tag {} at {} site: full copy returned {:?}", t, site.kind, e)).env(env)),
                    Ok(Ok(x)) => return Err(Fail::new("foreign-tag-full-value", format!("foreign tag {} at {} site was mapped to a variant by full copy: {}", t, site.kind, x.show())).env(env)),
                    Err(p) => return Err(Fail::new(&format!("foreign-tag-full-panic:{}", panic_class(&p)), format!("foreign tag {} at {} site: full copy panicked: {}", t, site.kind, p)).env(env)),
                }
                let pl = Placed::new(&m, 16384, 0);
                match guard(|| subj.eps(pl.bytes()).map(|o| o.val)) {
                    Ok(Err(deser::Error::InvalidTag(x))) if x == t => {}
                    Ok(Err(deser::Error::InvalidTag(x))) => return Err(Fail::new("foreign-tag-eps-payload", format!("foreign tag {} at {} site (offset {}): ε-copy reports InvalidTag({})", t, site.kind, site.pos, x)).env(env)),
                    Ok(Err(e)) => return Err(Fail::new(&format!("foreign-tag-eps-error:{}", err_name(&e)), format!("foreign tag {} at {} site: ε-copy returned {:?}", t, site.kind, e)).env(env)),
                    Ok(Ok(x)) => return Err(Fail::new("foreign-tag-eps-value", format!("foreign tag {} at {} site was mapped to a variant by ε-copy: {}", t, site.kind, x.show())).env(env)),
                    Err(p) => return Err(Fail::new(&format!("foreign-tag-eps-panic:{}", panic_class(&p)), format!("foreign tag {} at {} site: ε-copy panicked: {}", t, site.kind, p)).env(env)),
                }
            }
        }
        Ok(())
    });
}
