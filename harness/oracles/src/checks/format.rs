//! C06 (bytes conform to the published format) and C07 (padding to the unit, exact counts).

use super::basic::traced;
use super::*;
use crate::trace::Event;
use vmodel::format::pad_to;
use vmodel::val::GenCfg;

pub fn c06(ctx: &Ctx, subj: &dyn DynSubject, ty: &Ty, rep: &mut Report) {
    // (b) reference hasher vs real traits, once per subject
    let (th, ah) = subj.hashes();
    let (mth, mah) = (ctx.model.type_hash(ty), ctx.model.align_hash(ty));
    rep.evaluations += 1;
    if th != mth || ah != mah {
        rep.failures.push(crate::report::Failure {
            property: ctx.prop.clone(),
            subject: subj.name().into(),
            subject_index: subj.index(),
            val: None,
            env: json!({"real": [format!("{:016x}", th), format!("{:016x}", ah)], "reference": [format!("{:016x}", mth), format!("{:016x}", mah)]}),
            message: format!(
                "{} hash of {} differs from the published recipe (real {:016x}/{:016x}, reference {:016x}/{:016x})",
                if th != mth { "type" } else { "alignment" },
                subj.name(), th, ah, mth, mah
            ),
            signature: if th != mth { "type-hash-recipe".into() } else { "align-hash-recipe".into() },
        });
        return;
    }
    if !subj.ser_type_is_self() {
        rep.notes.push(format!("{}: SerType differs from Self", subj.name()));
    }
    // (c) golden corpus written by the pinned build (fixed universe only)
    if ctx.u.label == "fixed" {
        corpus_read(ctx, subj, ty, rep);
    }
    let strat = strategy_for(ctx, ty, GenCfg::default());
    crate::runner::run_cases_pre(ctx, subj, rep, &sweep_vals(ctx, ty), strat, ctx.cases, &|v, log| {
        self_check(subj, v)?;
        classify(ctx, ty, v, log);
        let (bytes, _) = ser_bytes(subj, v)?;
        let enc = model_enc(ctx, subj, ty, v)?;
        log.nontrivial = !enc.tags.is_empty() || !enc.lens.is_empty() || !enc.blocks.is_empty();
        let masked = enc.mask.iter().filter(|m| !**m).count();
        if masked > 0 {
            log.classes.push("has-masked-padding".into());
        }
        if enc.blocks.iter().any(|b| b.pos > b.pad_start) {
            log.classes.push("has-padding".into());
        }
        log.sample = Some(sample_json(subj, v, Some(&bytes), json!({"blocks": enc.blocks.len(), "tags": enc.tags.len(), "masked_bytes": masked})));
        if bytes.len() != enc.bytes.len() {
            return Err(Fail::new("format-length", format!("stream has {} bytes, format 1.1 prescribes {}", bytes.len(), enc.bytes.len())));
        }
        if let Some(i) = enc.same_unmasked(&bytes) {
            let what = if i < enc.header_len { "header" } else { "value" };
            return Err(Fail::new(
                &format!("format-byte:{}", what),
                format!("byte {} of the stream ({} part) is {:#04x}, format 1.1 prescribes {:#04x}", i, what, bytes[i], enc.bytes[i]),
            )
            .env(json!({"offset": i})));
        }
        Ok(())
    });
}

pub fn c07(ctx: &Ctx, subj: &dyn DynSubject, ty: &Ty, rep: &mut Report) {
    let strat = strategy_for(ctx, ty, GenCfg::default());
    crate::runner::run_cases_pre(ctx, subj, rep, &sweep_vals(ctx, ty), strat, ctx.cases, &|v, log| {
        self_check(subj, v)?;
        classify(ctx, ty, v, log);
        let (tbytes, events) = traced(subj, v)?;
        let (bytes, returned) = ser_bytes(subj, v)?;
        if tbytes != bytes {
            // padding inside zero-copy structs is uninitialised: compare lengths only
            if tbytes.len() != bytes.len() {
                return Err(Fail::new("trace-differs", "recording backend and plain backend wrote streams of different length"));
            }
        }
        log.sample = Some(sample_json(subj, v, Some(&bytes), json!({"events": events.len()})));
        // (1) every block is preceded by an Align event for the same unit; start % unit == 0; minimal zero gap
        let mut last_align: Option<(usize, usize)> = None;
        let mut gap_seen = false;
        let mut gaps: Vec<(usize, usize)> = vec![];
        let mut deferred: Option<Fail> = None;
        for e in &events {
            match e {
                Event::Align { pos, unit } => last_align = Some((*pos, *unit)),
                Event::Block { pos, len: _, size_of: _, align_of, unit, ty: tn } => {
                    let Some((q, u)) = last_align.take() else {
                        return Err(Fail::new("block-without-align", format!("block of {} at {} written without aligning the stream first", tn, pos)));
                    };
                    if u != *unit {
                        return Err(Fail::new("align-unit-mismatch", format!("stream aligned to {} before a block of {} whose unit is {}", u, tn, unit)));
                    }
                    let u = *unit;
                    if u == 0 || !u.is_power_of_two() {
                        // reported at the end: the remaining sub-checks (counts, consumption) still apply
                        deferred.get_or_insert(Fail::new("unit-not-power-of-two", format!("alignment unit of {} is {}", tn, u)));
                        last_align = None;
                        continue;
                    }
                    if u < *align_of {
                        return Err(Fail::new("unit-below-native-align", format!("alignment unit {} of {} is below its native alignment {}", u, tn, align_of)));
                    }
                    if pos % u != 0 {
                        return Err(Fail::new("block-misaligned", format!("block of {} starts at stream offset {}, not a multiple of its unit {}", tn, pos, u)));
                    }
                    if *pos < q || pos - q != pad_to(q, u) {
                        return Err(Fail::new("gap-not-minimal", format!("gap before block of {} is {} bytes (offset {} -> {}), minimal is {}", tn, pos.wrapping_sub(q), q, pos, pad_to(q, u))));
                    }
                    if bytes[q..*pos].iter().any(|b| *b != 0) {
                        return Err(Fail::new("gap-not-zero", format!("padding before block of {} at {}..{} contains non-zero bytes", tn, q, pos)));
                    }
                    if pos > &q {
                        gap_seen = true;
                        gaps.push((q, *pos));
                    }
                    log.classes.push(format!("residue-{}-of-{}", q % u, u));
                }
            }
        }
        log.nontrivial = gap_seen;
        if gap_seen {
            log.classes.push("has-gap".into());
        }
        // (2) units of aggregates dominate the units of their parts: compare with the model's unit
        let enc = model_enc(ctx, subj, ty, v)?;
        let real_blocks: Vec<&Event> = events.iter().filter(|e| matches!(e, Event::Block { pos, .. } if *pos >= enc.header_len)).collect();
        if real_blocks.len() == enc.blocks.len() {
            for (r, m) in real_blocks.iter().zip(&enc.blocks) {
                if let Event::Block { unit, ty: tn, .. } = r {
                    // the documented unit: largest primitive inside, maximised with native alignment
                    if *unit < m.unit {
                        return Err(Fail::new("unit-below-field-unit", format!("alignment unit {} of {} is smaller than the unit {} required by its fields/alignment", unit, tn, m.unit)));
                    }
                }
            }
        } else {
            return Err(Fail::new("trace-model-blocks", format!("serializer wrote {} blocks after the header, reference model expects {}", real_blocks.len(), enc.blocks.len())));
        }
        // (3) byte counts
        if returned != bytes.len() {
            return Err(Fail::new("returned-count", format!("serialize returned {}, the writer received {} bytes", returned, bytes.len())));
        }
        let mut padded = bytes.clone();
        padded.extend_from_slice(&[0xEE; 37]);
        let mut cur = std::io::Cursor::new(&padded[..]);
        match guard(|| subj.full(&mut cur)) {
            Ok(Ok(_)) => {
                if cur.position() as usize != bytes.len() {
                    return Err(Fail::new("full-consumed", format!("full-copy consumed {} bytes of a {}-byte stream", cur.position(), bytes.len())));
                }
            }
            Ok(Err(e)) => return Err(Fail::new(&format!("full-error:{}", err_name(&e)), format!("full-copy failed with trailing garbage: {:?}", e))),
            Err(p) => return Err(Fail::new(&format!("full-panic:{}", panic_class(&p)), format!("full-copy panicked: {}", p))),
        }
        let l2 = super::basic::real_max_unit(&events).next_power_of_two();
        let pl = crate::faults::Placed::new(&padded, l2.max(64), 0);
        // with a unit that is not a power of two (the deferred failure) no buffer placement satisfies the
        // address check for every block, so only the full-copy consumption is compared
        if deferred.is_some() {
            return Err(deferred.unwrap());
        }
        match guard(|| subj.eps_consumed(pl.bytes())) {
            Ok(Ok(n)) => {
                if n != bytes.len() {
                    return Err(Fail::new("eps-consumed", format!("ε-copy consumed {} bytes of a {}-byte stream", n, bytes.len())));
                }
            }
            Ok(Err(e)) => return Err(Fail::new(&format!("eps-error:{}", err_name(&e)), format!("ε-copy failed with trailing garbage: {:?}", e))),
            Err(p) => return Err(Fail::new(&format!("eps-panic:{}", panic_class(&p)), format!("ε-copy panicked: {}", p))),
        }
        // (4) history: after this thread has read a stream whose gaps hold garbage (deserializers skip padding
        // without looking at it), the gaps of the next serialization are still zeros
        if !gaps.is_empty() && deferred.is_none() {
            let mut dirty = bytes.clone();
            for (q, p) in &gaps {
                for b in &mut dirty[*q..*p] {
                    *b = 0xA5;
                }
            }
            let read_full = matches!(guard(|| subj.full(&mut std::io::Cursor::new(&dirty[..]))), Ok(Ok(_)));
            let pd = crate::faults::Placed::new(&dirty, l2.max(64), 0);
            let read_eps = matches!(guard(|| subj.eps(pd.bytes()).map(|_| ())), Ok(Ok(())));
            if read_full || read_eps {
                log.classes.push("reserialized-after-dirty-padding".into());
                log.extra_evals += 1;
                let (again, _) = ser_bytes(subj, v)?;
                for (q, p) in &gaps {
                    if again.len() != bytes.len() || again[*q..*p].iter().any(|b| *b != 0) {
                        return Err(Fail::new("gap-not-zero-after-dirty-read", format!("after deserializing a stream whose padding held 0xA5 bytes, the next serialization of the same value wrote non-zero padding at {}..{} (or a stream of different length)", q, p)));
                    }
                }
            }
        }
        match deferred {
            Some(f) => Err(f),
            None => Ok(()),
        }
    });
}

/// Exhaustive grid for the padding formula (called once per run by the driver through subject 0).
pub fn pad_formula_grid(rep: &mut Report) -> Result<(), String> {
    let mut n = 0u64;
    let mut offsets: Vec<usize> = (0..=8192usize).collect();
    for k in 0..usize::BITS {
        let p = 1usize << k;
        offsets.extend([p.wrapping_sub(1), p, p.wrapping_add(1)]);
    }
    for j in 0..64usize {
        offsets.push(usize::MAX - j);
    }
    for k in 0..=16u32 {
        let unit = 1usize << k;
        for &o in &offsets {
            let d = epserde::pad_align_to(o, unit);
            n += 1;
            // least d with (o + d) % unit == 0, arithmetic modulo 2^64
            let ok = o.wrapping_add(d) % unit == 0 && d < unit;
            if !ok {
                return Err(format!("pad_align_to({}, {}) = {} is not the least padding", o, unit, d));
            }
        }
    }
    rep.evaluations += n;
    *rep.exhaustive_parts.entry("pad_align_to grid".into()).or_default() += n;
    Ok(())
}

pub const CORPUS_DIR: &str = "/verif/corpus";

fn hex(b: &[u8]) -> String {
    b.iter().map(|x| format!("{:02x}", x)).collect()
}
fn unhex(s: &str) -> Vec<u8> {
    (0..s.len() / 2).map(|i| u8::from_str_radix(&s[2 * i..2 * i + 2], 16).unwrap_or(0)).collect()
}

/// Write the corpus entry of one subject: 4 deterministic values (the minimal one + 3 generated).
pub fn corpus_write(ctx: &Ctx, subj: &dyn DynSubject, ty: &Ty) -> Result<(), String> {
    let strat = vmodel::val::val_strategy(ctx.u, ty, GenCfg { max_len: 6, long: false });
    let mut vals = vec![vmodel::val::min_val(ctx.u, ty)];
    // constant seed: the corpus must not depend on VERIF_SEED
    let ctx0 = Ctx { u: ctx.u, model: vmodel::format::Model::new(ctx.u, ctx.model.layouts), units: ctx.units, tier: ctx.tier, seed: 0xC0_4B05, prop: "corpus".into(), cases: 1, tmp: ctx.tmp.clone(), known: ctx.known };
    vals.extend(crate::runner::sample_vals(&ctx0, &["corpus", subj.name()], &strat, 3));
    let mut cases = vec![];
    for v in vals {
        let (bytes, _) = ser_bytes(subj, &v).map_err(|f| f.message)?;
        cases.push(json!({"val": serde_json::to_value(&v).unwrap(), "hex": hex(&bytes)}));
    }
    let (th, ah) = subj.hashes();
    let j = json!({"subject": subj.name(), "index": subj.index(), "type_hash": format!("{:016x}", th), "align_hash": format!("{:016x}", ah), "cases": cases});
    std::fs::create_dir_all(CORPUS_DIR).map_err(|e| e.to_string())?;
    std::fs::write(format!("{}/{:04}.json", CORPUS_DIR, subj.index()), serde_json::to_string(&j).unwrap()).map_err(|e| e.to_string())
}

fn corpus_read(ctx: &Ctx, subj: &dyn DynSubject, ty: &Ty, rep: &mut Report) {
    let path = format!("{}/{:04}.json", CORPUS_DIR, subj.index());
    let Some(j) = std::fs::read_to_string(&path).ok().and_then(|s| serde_json::from_str::<Value>(&s).ok()) else {
        rep.notes.push(format!("no corpus entry for {}", subj.name()));
        return;
    };
    let failures = std::cell::RefCell::new(Vec::new());
    let bad = |sig: &str, msg: String, val: Option<Val>| {
        failures.borrow_mut().push(crate::report::Failure { property: ctx.prop.clone(), subject: subj.name().into(), subject_index: subj.index(), val, env: json!({"corpus_file": path}), message: msg, signature: sig.into() });
    };
    if j["subject"].as_str() != Some(subj.name()) {
        bad("harness:corpus-mismatch", format!("corpus entry {} is for {:?}", path, j["subject"]), None);
        rep.failures.extend(failures.into_inner());
        return;
    }
    let (th, ah) = subj.hashes();
    if j["type_hash"].as_str() != Some(&format!("{:016x}", th)) || j["align_hash"].as_str() != Some(&format!("{:016x}", ah)) {
        bad("corpus-hash-drift", format!("hashes of {} changed since the corpus was written (recorded {}/{}, now {:016x}/{:016x}): files written by earlier builds are no longer accepted", subj.name(), j["type_hash"], j["align_hash"], th, ah), None);
        rep.failures.extend(failures.into_inner());
        return;
    }
    for c in j["cases"].as_array().cloned().unwrap_or_default() {
        let Ok(v) = serde_json::from_value::<Val>(c["val"].clone()) else { continue };
        let file = unhex(c["hex"].as_str().unwrap_or(""));
        rep.evaluations += 1;
        rep.class("corpus-file");
        match full_of(subj, &file) {
            Ok(Ok(x)) if x == v => {}
            other => {
                bad("corpus-full", format!("corpus file of {} no longer full-copy deserializes to the recorded value: {:?}", subj.name(), other.map(|r| r.map(|x| x.show()).map_err(|e| format!("{:?}", e)))), Some(v));
                break;
            }
        }
        let pl = crate::faults::Placed::new(&file, 16384, 0);
        match guard(|| subj.eps(pl.bytes()).map(|o| o.val)) {
            Ok(Ok(x)) if x == v => {}
            other => {
                bad("corpus-eps", format!("corpus file of {} no longer ε-copy deserializes to the recorded value: {:?}", subj.name(), other.map(|r| r.map(|x| x.show()).map_err(|e| format!("{:?}", e)))), Some(v));
                break;
            }
        }
        let Ok(enc) = model_enc(ctx, subj, ty, &v) else { continue };
        match ser_bytes(subj, &v) {
            Ok((now, _)) if now.len() == file.len() && same_masked(&enc, &now, &file) => {}
            Ok((now, _)) => {
                let i = (0..now.len().min(file.len())).find(|i| enc.mask.get(*i).copied().unwrap_or(true) && now[*i] != file[*i]).unwrap_or(now.len().min(file.len()));
                bad("corpus-reserialize", format!("re-serializing the recorded value of {} no longer reproduces the corpus file (first difference at byte {}, lengths {} / {})", subj.name(), i, now.len(), file.len()), Some(v));
                break;
            }
            Err(f) => {
                bad("corpus-reserialize", f.message, Some(v));
                break;
            }
        }
    }
    rep.failures.extend(failures.into_inner());
}
