//! C09 (a)-(c): failed loads leak nothing, successful loads release everything exactly once,
//! the backing region is stable while owned. (The compile-time part (d) lives in the driver.)
//!
//! Must run single-threaded: heap and mapping measurements are process-wide.

use super::*;
use crate::{Loader, Script};
use vmodel::val::GenCfg;

fn maps_lines_with(path: &std::path::Path) -> usize {
    let name = path.to_string_lossy().to_string();
    std::fs::read_to_string("/proc/self/maps").map(|s| s.lines().filter(|l| l.contains(&name)).count()).unwrap_or(0)
}

/// total size of anonymous/any mappings in pages (VmSize)
fn vm_pages() -> usize {
    std::fs::read_to_string("/proc/self/statm").ok().and_then(|s| s.split_whitespace().next().and_then(|x| x.parse().ok())).unwrap_or(0)
}

/// Growth of the address space in bytes, not counting whole 64 MiB units: glibc reserves the heaps of a thread's
/// malloc arena in units of 64 MiB (HEAP_MAX_SIZE), which says nothing about the code under test; a leaked
/// region of a file of at most a few MiB shows up in the remainder.
fn vm_growth(pages0: usize, pages1: usize) -> usize {
    (pages1.saturating_sub(pages0) * 4096) % (64 << 20)
}

const LOADERS: [Loader; 4] = [Loader::LoadFull, Loader::LoadMem, Loader::LoadMmap, Loader::Mmap];

pub fn c09(ctx: &Ctx, subj: &dyn DynSubject, ty: &Ty, rep: &mut Report) {
    if !crate::alloc::enabled() {
        rep.notes.push("tracking allocator disabled: heap leak measurements skipped".into());
    }
    // measurements are process-wide and sequential: a deterministic sample of the subjects is used
    let replaying = REPLAY_VAL.with(|c| c.borrow().is_some());
    let stride = if ctx.tier == Tier::Thorough { 3 } else { 12 };
    // types with arrays of deep-copy items (partially built on a failure) and with destructors are always in
    fn has_deep_array(ctx: &Ctx, t: &Ty) -> bool {
        match t {
            Ty::Array(e, _) if !ctx.u.is_zero(e) && t.array_len() >= 2 => true,
            Ty::Phantom(_) => false,
            _ => ctx.u.components(t).iter().any(|c| has_deep_array(ctx, c)),
        }
    }
    let always = subj.name().contains("DropAudit") || (has_deep_array(ctx, ty) && vmodel::mix_seed(&[subj.name()], ctx.seed) % 3 == 0);
    if !replaying && !always && vmodel::mix_seed(&[subj.name()], ctx.seed) % stride != 0 {
        *rep.excluded.entry("subjects not sampled for the sequential leak measurements".into()).or_default() += 1;
        return;
    }
    let strat = with_entropy(strategy_for(ctx, ty, GenCfg { max_len: 6, long: false }), 32);
    let reps = 5usize;
    crate::runner::run_cases(ctx, subj, rep, strat, ctx.cases, &|case, log| {
        let (v0, ent) = split_entropy(case);
        let mut ent = Ent::new(ent);
        self_check(subj, v0)?;
        // inflate borrowed payloads so that a leaked buffer / mapping dwarfs allocator noise
        let (b0, _) = ser_bytes(subj, v0)?;
        let enc0 = model_enc_fit(ctx, subj, ty, v0, b0.len(), log)?;
        let borrowed: usize = enc0.blocks.iter().filter(|b| b.borrowed).map(|b| b.len).sum();
        let v = if borrowed > 0 { ctx.model.scale(ty, v0, (300_000 / borrowed).clamp(1, 40_000)) } else { v0.clone() };
        let v = &v;
        let (bytes, _) = ser_bytes(subj, v)?;
        let enc = model_enc_fit(ctx, subj, ty, v, bytes.len(), log)?;
        let big = bytes.len() >= 200_000;
        log.classes.push(if big { "big-file".into() } else { "small-file".into() });
        let _ = b0;
        let path = ctx.tmp.join(format!("c09-{}.bin", subj.index()));
        let write = |data: &[u8]| {
            std::fs::remove_dir(&path).ok();
            std::fs::write(&path, data).map_err(|e| Fail::new("harness:tmpfile", format!("cannot write temp file: {}", e)))
        };
        // ---- (a) failing loads
        let mut causes: Vec<(String, Option<Vec<u8>>)> = vec![];
        let flip = |pos: usize| {
            let mut m = bytes.clone();
            m[pos] ^= 0x10;
            m
        };
        causes.push(("bad magic".into(), Some(flip(3))));
        causes.push(("major version".into(), Some(flip(8))));
        causes.push(("wrong type hash".into(), Some(flip(14))));
        causes.push(("wrong alignment hash".into(), Some(flip(23))));
        causes.push(("truncated in the header".into(), Some(bytes[..20.min(bytes.len())].to_vec())));
        if bytes.len() > enc.header_len + 1 {
            // a random cut, and cuts just after the starts of fields / items (partially built aggregates)
            let mut ks = vec![enc.header_len + 1 + ent.pick(bytes.len() - enc.header_len - 1)];
            let inner: Vec<usize> = enc.boundaries.iter().copied().filter(|b| *b > enc.header_len && *b + 1 < bytes.len()).collect();
            for j in 0..4usize {
                if !inner.is_empty() {
                    ks.push(inner[(j * inner.len() / 4 + ent.pick(inner.len().div_ceil(4))).min(inner.len() - 1)] + 1);
                }
            }
            ks.sort();
            ks.dedup();
            for k in ks {
                causes.push((format!("truncated at {} of {}", k, bytes.len()), Some(bytes[..k].to_vec())));
            }
        }
        if let Some(t) = enc.tags.first() {
            let mut m = bytes.clone();
            if t.width == 1 {
                m[t.pos] = 0xEE;
            } else {
                m[t.pos..t.pos + t.width].copy_from_slice(&usize::MAX.to_ne_bytes());
            }
            causes.push(("foreign tag".into(), Some(m)));
        }
        causes.push(("missing file".into(), None));
        causes.push(("path is a directory".into(), None));
        log.nontrivial = true;
        log.sample = Some(sample_json(subj, v, Some(&bytes), json!({"file_len": bytes.len(), "causes": causes.iter().map(|c| c.0.clone()).collect::<Vec<_>>() })));
        for (cause, data) in &causes {
            match data {
                Some(d) => write(d)?,
                None => {
                    std::fs::remove_file(&path).ok();
                    std::fs::remove_dir(&path).ok();
                    if cause == "path is a directory" {
                        std::fs::create_dir(&path).map_err(|e| Fail::new("harness:tmpfile", format!("cannot create temp dir: {}", e)))?;
                    }
                }
            }
            for loader in LOADERS {
                if !cfg!(feature = "mmap") && matches!(loader, Loader::LoadMmap | Loader::Mmap) {
                    continue;
                }
                let flags = ent.pick(8) as u32;
                let attempt = |expect_fail: bool| -> Result<(), Fail> {
                    match guard(|| subj.load(loader, &path, flags, Script::Direct)) {
                        Ok(Ok(o)) => {
                            // zero-extending loaders may legitimately read a truncated file as something else; only a
                            // corrupted header must never load
                            if expect_fail {
                                return Err(Fail::new("corrupt-file-loaded", format!("{:?} of a file with {} returned {}", loader, cause, o.val.show())));
                            }
                            Ok(())
                        }
                        Ok(Err(_)) | Err(_) => Ok(()),
                    }
                };
                let must_fail = !cause.starts_with("truncated at") || matches!(loader, Loader::LoadFull);
                // warm-up (lazy initialisation inside std / the OS layer): a full round, so that only steady-state
                // growth is measured
                for _ in 0..reps {
                    attempt(must_fail)?;
                }
                let heap0 = crate::alloc::live_bytes();
                let maps0 = maps_lines_with(&path);
                let vm0 = vm_pages();
                for _ in 0..reps {
                    attempt(must_fail)?;
                }
                // (read the counters before the harness itself allocates anything)
                let heap1 = crate::alloc::live_bytes();
                let maps1 = maps_lines_with(&path);
                let vm1 = vm_pages();
                log.extra_evals += 2 * reps as u64;
                log.extra_nontrivial.push(hash_sub(subj.name(), v0, cause, loader as u64, 0));
                let env = json!({"cause": cause, "loader": format!("{:?}", loader), "flags": flags, "file_len": data.as_ref().map(|d| d.len())});
                if crate::alloc::enabled() && heap1 - heap0 > 0 {
                    return Err(Fail::new(&format!("failed-load-leaks-heap:{:?}", loader), format!("{} failing {:?} loads ({}) left {} more heap bytes live (file of {} bytes)", reps, loader, cause, heap1 - heap0, data.as_ref().map_or(0, |d| d.len()))).env(env));
                }
                if maps1 > maps0 {
                    return Err(Fail::new(&format!("failed-load-leaks-mapping:{:?}", loader), format!("{} failing {:?} loads ({}) left {} file mappings behind", reps, loader, cause, maps1 - maps0)).env(env));
                }
                if big && data.as_ref().map_or(false, |d| d.len() >= 200_000) && vm_growth(vm0, vm1) > 3 * data.as_ref().unwrap().len() {
                    return Err(Fail::new(&format!("failed-load-leaks-address-space:{:?}", loader), format!("{} failing {:?} loads ({}) grew the address space by {} KiB (file of {} KiB)", reps, loader, cause, (vm1 - vm0) * 4, data.as_ref().unwrap().len() / 1024)).env(env));
                }
            }
        }
        std::fs::remove_dir(&path).ok();
        // ---- (b) successful loads release everything; (c) region stable while owned
        write(&bytes)?;
        let audit_expected = audit_expect(ctx, ty, v);
        for loader in LOADERS {
            if !cfg!(feature = "mmap") && matches!(loader, Loader::LoadMmap | Loader::Mmap) {
                continue;
            }
            let ok = |script: Script| -> Result<(), Fail> {
                crate::audit::reset();
                match guard(|| subj.load(loader, &path, 0, script)) {
                    Ok(Ok(o)) if o.val == *v => {}
                    other => return Err(Fail::new("load-failed", format!("{:?} of a valid file: {:?}", loader, other.map(|r| r.map(|o| o.val.show()).map_err(|e| format!("{:#}", e)))))),
                }
                // a destructor of the loaded structure that reads its (borrowed) data must still see the data
                if let Some(exp) = audit_expected {
                    let got = crate::audit::read();
                    if got != exp {
                        return Err(Fail::new(
                            "drop-reads-released-memory",
                            format!("{:?} + {:?}: the destructor of the loaded structure read data with checksum/count {:?}, the stored data has {:?}: the backing memory was released or changed before the structure was dropped", loader, script, got, exp),
                        )
                        .env(json!({"loader": format!("{:?}", loader), "script": format!("{:?}", script)})));
                    }
                }
                Ok(())
            };
            ok(Script::Direct)?; // warm-up
            let heap0 = crate::alloc::live_bytes();
            let maps0 = maps_lines_with(&path);
            let vm0 = vm_pages();
            for script in [Script::Direct, Script::Boxed, Script::ThroughVec, Script::Direct, Script::Boxed] {
                ok(script)?;
            }
            log.extra_evals += 6;
            let (heap1, maps1, vm1) = (crate::alloc::live_bytes(), maps_lines_with(&path), vm_pages());
            let env = json!({"loader": format!("{:?}", loader), "file_len": bytes.len()});
            if crate::alloc::enabled() && heap1 - heap0 > 512 {
                return Err(Fail::new(&format!("dropped-load-leaks-heap:{:?}", loader), format!("5 successful {:?} loads, each dropped, left {} more heap bytes live", loader, heap1 - heap0)).env(env));
            }
            if maps1 > maps0 {
                return Err(Fail::new(&format!("dropped-load-leaks-mapping:{:?}", loader), format!("5 successful {:?} loads, each dropped, left {} file mappings behind", loader, maps1 - maps0)).env(env));
            }
            if big && vm_growth(vm0, vm1) > 3 * bytes.len() {
                return Err(Fail::new(&format!("dropped-load-leaks-address-space:{:?}", loader), format!("5 successful {:?} loads, each dropped, grew the address space by {} KiB", loader, (vm1 - vm0) * 4)).env(env));
            }
        }
        // ---- (b') a file whose borrowed string payload is not valid UTF-8 (a stray continuation byte): whether the
        // loader accepts or refuses it, it must not keep memory of its own behind
        let strs: Vec<&vmodel::format::Block> = enc.blocks.iter().filter(|b| b.borrowed && b.kind == vmodel::format::BlockKind::Str && b.len >= 2).collect();
        if !strs.is_empty() {
            let b = strs[ent.pick(strs.len())];
            let mut m = bytes.clone();
            m[b.pos + ent.pick(b.len - 1)] = 0x80;
            write(&m)?;
            log.classes.push("invalid-utf8-payload".into());
            for loader in [Loader::LoadMem, Loader::LoadMmap, Loader::Mmap] {
                if !cfg!(feature = "mmap") && matches!(loader, Loader::LoadMmap | Loader::Mmap) {
                    continue;
                }
                let attempt = || {
                    let _ = guard(|| subj.load(loader, &path, 0, Script::Direct).map(|_| ()));
                };
                attempt();
                let (heap0, maps0) = (crate::alloc::live_bytes(), maps_lines_with(&path));
                for _ in 0..reps {
                    attempt();
                }
                let (heap1, maps1) = (crate::alloc::live_bytes(), maps_lines_with(&path));
                log.extra_evals += reps as u64 + 1;
                let env = json!({"loader": format!("{:?}", loader), "cause": "invalid UTF-8 in a string payload"});
                if crate::alloc::enabled() && heap1 - heap0 > 0 {
                    return Err(Fail::new(&format!("bad-utf8-load-leaks-heap:{:?}", loader), format!("{} {:?} loads of a file whose string payload holds a stray 0x80 byte, each dropped, left {} more heap bytes live", reps, loader, heap1 - heap0)).env(env));
                }
                if maps1 > maps0 {
                    return Err(Fail::new(&format!("bad-utf8-load-leaks-mapping:{:?}", loader), format!("{} {:?} loads of a file whose string payload holds a stray 0x80 byte left {} file mappings behind", reps, loader, maps1 - maps0)).env(env));
                }
            }
            write(&bytes)?;
        }
        // (c') the copying loaders hold a private copy: overwriting the file afterwards (also a file that was
        // read-only when it was loaded) does not change the structure
        for (n, loader) in [Loader::LoadMem, Loader::LoadMmap].into_iter().enumerate() {
            if !cfg!(feature = "mmap") && loader == Loader::LoadMmap {
                continue;
            }
            write(&bytes)?;
            let read_only = (ent.pick(2) + n) % 2 == 0;
            if read_only {
                use std::os::unix::fs::PermissionsExt;
                let _ = std::fs::set_permissions(&path, std::fs::Permissions::from_mode(0o444));
            }
            log.extra_evals += 1;
            log.classes.push(if read_only { "overwritten-after-load:read-only-file".into() } else { "overwritten-after-load".into() });
            match guard(|| subj.load(loader, &path, 0, Script::OverwriteAfterLoad)) {
                Ok(Ok(o)) if o.val == *v => {}
                other => {
                    let _ = std::fs::remove_file(&path);
                    return Err(Fail::new(
                        &format!("loaded-structure-follows-the-file:{:?}", loader),
                        format!("{:?} of a {} file, then every byte of the file overwritten in place: the loaded structure is no longer the stored value: {:?}", loader, if read_only { "read-only" } else { "writable" }, other.map(|r| r.map(|o| o.val.show()).map_err(|e| format!("{:#}", e)))),
                    )
                    .env(json!({"loader": format!("{:?}", loader), "read_only": read_only})));
                }
            }
            let _ = std::fs::remove_file(&path);
        }
        write(&bytes)?;
        // (c) stability is observed through `Script`s that move the case and re-read it (values compared above) and
        // by `prefix_is_file` in the C08 check; here: interleave other allocations and loads between two reads
        if cfg!(epserde_verif) {
            match guard(|| subj.load(Loader::LoadMem, &path, 0, Script::SharedThreads)) {
                Ok(Ok(o)) if o.val == *v && o.prefix_is_file == Some(true) => {}
                other => return Err(Fail::new("region-unstable", format!("load_mem + concurrent readers: {:?}", other.map(|r| r.map(|o| (o.val.show(), o.prefix_is_file)).map_err(|e| format!("{:#}", e)))))),
            }
        }
        std::fs::remove_file(&path).ok();
        Ok(())
    });
}

/// Expected (checksum sum, drop count) of the `DropAudit` instances inside a value, if the type has any.
fn audit_expect(ctx: &Ctx, ty: &Ty, v: &Val) -> Option<(u64, u64)> {
    fn walk(ctx: &Ctx, ty: &Ty, v: &Val, acc: &mut (u64, u64), any: &mut bool) {
        match ty {
            Ty::Adt(i, args) => {
                let def = &ctx.u.adts[*i];
                let (var, fields): (usize, &[Val]) = match &def.body {
                    vmodel::ty::Body::Struct(_) => (0, v.seq()),
                    vmodel::ty::Body::Enum(_) => v.var(),
                };
                let fts = ctx.u.inst_fields(*i, args, var);
                if def.name == "DropAudit" {
                    *any = true;
                    let data: Vec<u64> = fields[0].seq().iter().map(|x| x.u64()).collect();
                    acc.0 = acc.0.wrapping_add(crate::audit::checksum(&data));
                    acc.1 += 1;
                }
                for (ft, fv) in fts.iter().zip(fields) {
                    walk(ctx, ft, fv, acc, any);
                }
            }
            Ty::Vec(e) | Ty::BoxSlice(e) | Ty::Array(e, _) => {
                for x in v.seq() {
                    walk(ctx, e, x, acc, any);
                }
            }
            Ty::Option(e) | Ty::Bound(e) => {
                let (k, f) = v.var();
                if k > 0 {
                    walk(ctx, e, &f[0], acc, any);
                }
            }
            Ty::ControlFlow(b, c) => {
                let (k, f) = v.var();
                walk(ctx, if k == 0 { b } else { c }, &f[0], acc, any);
            }
            _ => {}
        }
    }
    fn mentions(ctx: &Ctx, ty: &Ty) -> bool {
        match ty {
            Ty::Adt(i, _) if ctx.u.adts[*i].name == "DropAudit" => true,
            Ty::Phantom(_) => false,
            _ => ctx.u.components(ty).iter().any(|c| mentions(ctx, c)),
        }
    }
    if !mentions(ctx, ty) {
        return None;
    }
    let mut acc = (0u64, 0u64);
    let mut any = false;
    walk(ctx, ty, v, &mut acc, &mut any);
    Some(acc)
}
