//! C10 (header corruption) and C11 (truncation).

use super::*;
use crate::faults::Placed;
use crate::Loader;
use vmodel::format::FIXED_HEADER;
use vmodel::val::GenCfg;

const MAGIC: u64 = u64::from_ne_bytes(*b"epserde ");

enum Expect {
    Magic(u64),
    Endianness,
    Major(u16),
    Minor(u16),
    Usize(usize),
    TypeHash { ser: u64, own: u64 },
    AlignHash { ser: u64, own: u64 },
    OkSame,
}

fn matches_expect(r: &deser::Result<Val>, x: &Expect, v: &Val, names: (&str, &str)) -> Result<(), String> {
    use deser::Error as E;
    match (r, x) {
        (Ok(got), Expect::OkSame) => {
            if got == v {
                Ok(())
            } else {
                Err(format!("accepted with a different value {}", got.show()))
            }
        }
        (Ok(got), _) => Err(format!("a value was returned: {}", got.show())),
        (Err(E::MagicCookieError(m)), Expect::Magic(e)) if m == e => Ok(()),
        (Err(E::EndiannessError), Expect::Endianness) => Ok(()),
        (Err(E::MajorVersionMismatch(m)), Expect::Major(e)) if m == e => Ok(()),
        (Err(E::MinorVersionMismatch(m)), Expect::Minor(e)) if m == e => Ok(()),
        (Err(E::UsizeSizeMismatch(m)), Expect::Usize(e)) if m == e => Ok(()),
        (Err(E::WrongTypeHash { ser_type_name, ser_type_hash, self_type_name, self_type_hash }), Expect::TypeHash { ser, own }) => {
            if ser_type_hash == ser && self_type_hash == own && ser_type_name == names.0 && self_type_name == names.1 {
                Ok(())
            } else {
                Err(format!("WrongTypeHash payload is ({:x},{:x},{:?},{:?}), expected ({:x},{:x},{:?},{:?})", ser_type_hash, self_type_hash, ser_type_name, self_type_name, ser, own, names.0, names.1))
            }
        }
        (Err(E::WrongAlignHash { ser_type_name, ser_align_hash, self_type_name, self_align_hash }), Expect::AlignHash { ser, own }) => {
            if ser_align_hash == ser && self_align_hash == own && ser_type_name == names.0 && self_type_name == names.1 {
                Ok(())
            } else {
                Err(format!("WrongAlignHash payload is ({:x},{:x},{:?},{:?}), expected ({:x},{:x},{:?},{:?})", ser_align_hash, self_align_hash, ser_type_name, self_type_name, ser, own, names.0, names.1))
            }
        }
        (Err(e), _) => Err(format!("wrong error {:?}", e)),
    }
}

fn expect_name(x: &Expect) -> &'static str {
    match x {
        Expect::Magic(_) => "MagicCookieError",
        Expect::Endianness => "EndiannessError",
        Expect::Major(_) => "MajorVersionMismatch",
        Expect::Minor(_) => "MinorVersionMismatch",
        Expect::Usize(_) => "UsizeSizeMismatch",
        Expect::TypeHash { .. } => "WrongTypeHash",
        Expect::AlignHash { .. } => "WrongAlignHash",
        Expect::OkSame => "Ok(same value)",
    }
}

fn expectation(orig: &[u8], m: &[u8]) -> Expect {
    let u64at = |b: &[u8], o: usize| u64::from_ne_bytes(b[o..o + 8].try_into().unwrap());
    let u16at = |b: &[u8], o: usize| u16::from_ne_bytes(b[o..o + 2].try_into().unwrap());
    let magic = u64at(m, 0);
    if magic != MAGIC {
        return if magic == MAGIC.swap_bytes() { Expect::Endianness } else { Expect::Magic(magic) };
    }
    if u16at(m, 8) != 1 {
        return Expect::Major(u16at(m, 8));
    }
    if u16at(m, 10) > 1 {
        return Expect::Minor(u16at(m, 10));
    }
    if m[12] as usize != core::mem::size_of::<usize>() {
        return Expect::Usize(m[12] as usize);
    }
    if u64at(m, 13) != u64at(orig, 13) {
        return Expect::TypeHash { ser: u64at(m, 13), own: u64at(orig, 13) };
    }
    if u64at(m, 21) != u64at(orig, 21) {
        return Expect::AlignHash { ser: u64at(m, 21), own: u64at(orig, 21) };
    }
    Expect::OkSame
}

pub fn c10(ctx: &Ctx, subj: &dyn DynSubject, ty: &Ty, rep: &mut Report) {
    let strat = with_entropy(strategy_for(ctx, ty, GenCfg { max_len: 5, long: false }), 32);
    let tname = subj.std_type_name();
    crate::runner::run_cases(ctx, subj, rep, strat, ctx.cases, &|case, log| {
        let (v, ent) = split_entropy(case);
        let mut ent = Ent::new(ent);
        self_check(subj, v)?;
        let (bytes, _) = ser_bytes(subj, v)?;
        log.sample = Some(sample_json(subj, v, Some(&bytes), json!({"mutations": "232 bit flips + reversed cookie + minor classes"})));
        log.nontrivial = true;
        // mutations: (description, mutated header)
        let mut muts: Vec<(String, Vec<u8>)> = vec![];
        for bit in 0..FIXED_HEADER * 8 {
            let mut m = bytes[..FIXED_HEADER].to_vec();
            m[bit / 8] ^= 1 << (bit % 8);
            muts.push((format!("flip bit {} of byte {}", bit % 8, bit / 8), m));
        }
        let mut rev = bytes[..FIXED_HEADER].to_vec();
        rev[..8].reverse();
        muts.push(("byte-reversed cookie".into(), rev));
        let mut minors: Vec<u16> = vec![0, 1, 2, 3, 255, 256, 0x7fff, 0x8000, 0xffff];
        for _ in 0..8 {
            minors.push(ent.u64() as u16);
        }
        for mv in minors {
            let mut m = bytes[..FIXED_HEADER].to_vec();
            m[10..12].copy_from_slice(&mv.to_ne_bytes());
            muts.push((format!("minor version {}", mv), m));
        }
        // the same single-bit flips on a valid file of a lower minor version (two header fields deviate at once)
        let base_minor0 = {
            let mut b = bytes[..FIXED_HEADER].to_vec();
            b[10..12].copy_from_slice(&0u16.to_ne_bytes());
            b
        };
        for bit in (0..FIXED_HEADER * 8).filter(|b| !(80..96).contains(b)) {
            let mut m = base_minor0.clone();
            m[bit / 8] ^= 1 << (bit % 8);
            muts.push((format!("minor version 0 and flip bit {} of byte {}", bit % 8, bit / 8), m));
        }
        // the same mask on both hash fields (their differences cancel in any combined test), and the two fields
        // exchanged
        for bit in 0..64usize {
            let mut m = bytes[..FIXED_HEADER].to_vec();
            m[13 + bit / 8] ^= 1 << (bit % 8);
            m[21 + bit / 8] ^= 1 << (bit % 8);
            muts.push((format!("flip bit {} of both the type hash and the alignment hash", bit), m));
        }
        for _ in 0..6 {
            let mask = ent.u64().to_ne_bytes();
            if mask == [0; 8] {
                continue;
            }
            let mut m = bytes[..FIXED_HEADER].to_vec();
            for j in 0..8 {
                m[13 + j] ^= mask[j];
                m[21 + j] ^= mask[j];
            }
            muts.push((format!("xor both hashes with {:02x?}", mask), m));
        }
        {
            let mut m = bytes[..FIXED_HEADER].to_vec();
            let (a, b) = (m[13..21].to_vec(), m[21..29].to_vec());
            m[13..21].copy_from_slice(&b);
            m[21..29].copy_from_slice(&a);
            if a != b {
                muts.push(("type hash and alignment hash exchanged".into(), m));
            }
        }
        for (n, (what, head)) in muts.iter().enumerate() {
            let mut mutated = bytes.clone();
            mutated[..FIXED_HEADER].copy_from_slice(head);
            let x = expectation(&bytes, &mutated);
            log.classes.push(format!("expect-{}", expect_name(&x)));
            log.extra_evals += 2;
            log.extra_nontrivial.push(hash_sub(subj.name(), v, "c10", n as u64, 0));
            let names = (tname, tname);
            // full copy
            let r = guard(|| subj.full(&mut std::io::Cursor::new(&mutated[..])));
            let verdict = match &r {
                Err(p) => Err(format!("panicked: {}", p)),
                Ok(r) => matches_expect(r, &x, v, names),
            };
            if let Err(e) = verdict {
                return Err(Fail::new(&format!("header-full:{}", expect_name(&x)), format!("{} -> expected {} from deserialize_full, but {}", what, expect_name(&x), e)).env(json!({"mutation": what, "mode": "full"})));
            }
            // ε-copy
            let pl = Placed::new(&mutated, 16384, 0);
            let r = guard(|| subj.eps(pl.bytes()).map(|o| o.val));
            let verdict = match &r {
                Err(p) => Err(format!("panicked: {}", p)),
                Ok(r) => matches_expect(r, &x, v, names),
            };
            if let Err(e) = verdict {
                return Err(Fail::new(&format!("header-eps:{}", expect_name(&x)), format!("{} -> expected {} from deserialize_eps, but {}", what, expect_name(&x), e)).env(json!({"mutation": what, "mode": "eps"})));
            }
        }
        // a valid file that records another type *name* (the name is informative: a renamed type, a newtype that
        // hashes like the type it wraps): flips of either hash are still reported with the right variant and values,
        // now carrying the recorded name
        {
            let foreign = "legacy::Samples<u16>";
            let renamed = crate::checks::cross::rename_stream(&bytes, foreign);
            for bit in [0usize, 7, 63] {
                for field in [13usize, 21] {
                    let mut m = renamed.clone();
                    m[field + bit / 8] ^= 1 << (bit % 8);
                    let x = expectation(&renamed, &m);
                    log.extra_evals += 2;
                    let r = guard(|| subj.full(&mut std::io::Cursor::new(&m[..])));
                    let verdict = match &r {
                        Err(p) => Err(format!("panicked: {}", p)),
                        Ok(r) => matches_expect(r, &x, v, (foreign, tname)),
                    };
                    if let Err(e) = verdict {
                        return Err(Fail::new(&format!("header-full-foreign-name:{}", expect_name(&x)), format!("file recording the type name {:?}, bit {} of the {} hash flipped -> expected {} from deserialize_full, but {}", foreign, bit, if field == 13 { "type" } else { "alignment" }, expect_name(&x), e)).env(json!({"mutation": "foreign name", "mode": "full"})));
                    }
                    let pl = Placed::new(&m, 16384, 0);
                    let r = guard(|| subj.eps(pl.bytes()).map(|o| o.val));
                    let verdict = match &r {
                        Err(p) => Err(format!("panicked: {}", p)),
                        Ok(r) => matches_expect(r, &x, v, (foreign, tname)),
                    };
                    if let Err(e) = verdict {
                        return Err(Fail::new(&format!("header-eps-foreign-name:{}", expect_name(&x)), format!("file recording the type name {:?}, bit {} of the {} hash flipped -> expected {} from deserialize_eps, but {}", foreign, bit, if field == 13 { "type" } else { "alignment" }, expect_name(&x), e)).env(json!({"mutation": "foreign name", "mode": "eps"})));
                    }
                }
            }
        }
        // the file loaders go through the same header check: the reversed cookie and a few generated mutations,
        // stored in a file, must be classified in the same way by each of them
        // (not for alignment units above 64 bytes, which the loaders refuse before looking at the file)
        if light() || ctx.u.label == "wide" {
            return Ok(());
        }
        let path = ctx.tmp.join(format!("c10-{}-{:?}.bin", subj.index(), std::thread::current().id()).replace(['(', ')'], ""));
        let mut picks = vec![FIXED_HEADER * 8];
        for _ in 0..4 {
            picks.push(ent.pick(muts.len()));
        }
        for n in picks {
            let (what, head) = &muts[n];
            let mut mutated = bytes.clone();
            mutated[..FIXED_HEADER].copy_from_slice(head);
            let x = expectation(&bytes, &mutated);
            std::fs::write(&path, &mutated).map_err(|e| Fail::new("harness:tmpfile", format!("cannot write temp file: {}", e)))?;
            for loader in [Loader::LoadFull, Loader::LoadMem, Loader::LoadMmap, Loader::Mmap] {
                if !cfg!(feature = "mmap") && matches!(loader, Loader::LoadMmap | Loader::Mmap) {
                    continue;
                }
                log.extra_evals += 1;
                let r = guard(|| subj.load(loader, &path, 0, crate::Script::Direct));
                let verdict = match r {
                    Err(p) => Err(format!("panicked: {}", p)),
                    Ok(Ok(o)) => matches_expect(&Ok(o.val), &x, v, (tname, tname)),
                    Ok(Err(e)) => match e.downcast::<deser::Error>() {
                        Ok(de) => matches_expect(&Err(de), &x, v, (tname, tname)),
                        Err(other) => Err(format!("an error that is not a deserialization error: {:#}", other)),
                    },
                };
                if let Err(e) = verdict {
                    return Err(Fail::new(&format!("header-{:?}:{}", loader, expect_name(&x)), format!("{} (stored in a file) -> expected {} from {:?}, but {}", what, expect_name(&x), loader, e)).env(json!({"mutation": what, "mode": format!("{:?}", loader)})));
                }
            }
        }
        std::fs::remove_file(&path).ok();
        Ok(())
    });
}

/// Files of more than one and more than two mebibytes whose last bytes are zeros, cut at each of their last 72
/// bytes: every loader that must not zero-extend (load_full; mmap under every flag combination) has to fail.
fn c11_big(ctx: &Ctx, subj: &dyn DynSubject, ty: &Ty, rep: &mut Report) {
    use vmodel::ty::{Arg, Prim};
    let Ty::Adt(i, args) = ty else { return };
    if ctx.u.label != "extra" || ctx.u.adts[*i].name != "G1" || light() {
        return;
    }
    let strings = matches!(args.first(), Some(Arg::Ty(Ty::Vec(e))) if **e == Ty::String);
    if !strings && !matches!(args.first(), Some(Arg::Ty(Ty::Vec(e))) if **e == Ty::Prim(Prim::U64)) {
        return;
    }
    let mk = |n: usize| {
        let x = Val::P(0x0102_0304_0506_0708u64.to_ne_bytes().to_vec());
        let mut items = vec![x; n];
        for it in items.iter_mut().rev().take(16) {
            *it = Val::P(vec![0; 8]);
        }
        Val::Rec(vec![Val::Seq(items)])
    };
    let is_big = |v: &Val| matches!(v, Val::Rec(f) if matches!(f.first(), Some(Val::Seq(x)) if x.len() > 50_000));
    let vals = match crate::checks::replay_val() {
        Some(v) if is_big(&v) => vec![v],
        Some(_) => return,
        // (for the vector of strings: the enumerated value of more than 2^16 deep-copy items)
        None if strings => crate::checks::sweep_vals(ctx, ty),
        None => vec![mk(140_001), mk(300_008)],
    };
    let never = strategy_for(ctx, ty, GenCfg { max_len: 1, long: false });
    crate::runner::run_cases_pre(ctx, subj, rep, &vals, never, 0, &|v, log| {
        let path = ctx.tmp.join(format!("c11big-{}-{:?}.bin", subj.index(), std::thread::current().id()).replace(['(', ')'], ""));
        match guard(|| subj.store(v, &path)) {
            Ok(Ok(())) => {}
            other => return Err(Fail::new("store-failed", format!("store failed: {:?}", other.map(|r| r.map_err(|e| format!("{:?}", e)))))),
        }
        let len = std::fs::metadata(&path).map_err(|e| Fail::new("harness:tmpfile", format!("{}", e)))?.len() as usize;
        log.nontrivial = true;
        log.classes.push(if strings { "file-of-65537-strings".into() } else if len >= 2 << 20 { "file-over-2MiB-zero-tail".into() } else { "file-over-1MiB-zero-tail".into() });
        log.sample = Some(json!({"subject": subj.name(), "file_len": len, "cuts": "each of the last 72 bytes", "loaders": "load_full, mmap under 6 flag combinations"}));
        let f = std::fs::OpenOptions::new().write(true).open(&path).map_err(|e| Fail::new("harness:tmpfile", format!("{}", e)))?;
        for k in (len - 72..len).rev() {
            f.set_len(k as u64).map_err(|e| Fail::new("harness:tmpfile", format!("{}", e)))?;
            log.extra_evals += 1;
            log.extra_nontrivial.push(hash_sub(subj.name(), &Val::Unit, "c11big", k as u64, len as u64));
            match guard(|| subj.load(Loader::LoadFull, &path, 0, crate::Script::Direct)) {
                Ok(Err(e)) => match e.downcast_ref::<deser::Error>() {
                    Some(deser::Error::ReadError) => {}
                    other => return Err(Fail::new("trunc-loadfull-error", format!("load_full of a file cut at {} of {}: error is {:?} / {}, not ReadError", k, len, other, e)).env(json!({"k": k}))),
                },
                Ok(Ok(_)) => return Err(Fail::new("trunc-loadfull-value", format!("load_full of a file of {} bytes cut at {} returned a value", len, k)).env(json!({"k": k}))),
                Err(p) => return Err(Fail::new(&format!("trunc-loadfull-panic:{}", panic_class(&p)), format!("load_full of a file cut at {} of {} panicked: {}", k, len, p)).env(json!({"k": k}))),
            }
            if cfg!(feature = "mmap") {
                for flags in [0u32, 1, 2, 4, 3, 7] {
                    log.extra_evals += 1;
                    match guard(|| subj.load(Loader::Mmap, &path, flags, crate::Script::Direct)) {
                        Ok(Err(_)) => {}
                        Ok(Ok(_)) => return Err(Fail::new("trunc-mmap-value", format!("mmap (flag bits {:#b}) of a file of {} bytes cut at {} returned a value", flags, len, k)).env(json!({"k": k, "flags": flags}))),
                        Err(p) => {
                            if !is_bounds_panic(&p) {
                                return Err(Fail::new(&format!("trunc-mmap-panic:{}", panic_class(&p)), format!("mmap of a file cut at {} of {} panicked with something other than a bounds check: {}", k, len, p)).env(json!({"k": k})));
                            }
                        }
                    }
                }
            }
        }
        drop(f);
        std::fs::remove_file(&path).ok();
        Ok(())
    });
}

pub fn c11(ctx: &Ctx, subj: &dyn DynSubject, ty: &Ty, rep: &mut Report) {
    c11_big(ctx, subj, ty, rep);
    if !rep.failures.is_empty() || matches!(crate::checks::replay_val(), Some(Val::Rec(f)) if matches!(f.first(), Some(Val::Seq(x)) if x.len() > 50_000)) {
        return;
    }
    let strat = with_entropy(strategy_for(ctx, ty, GenCfg { max_len: 6, long: false }), 64);
    let file_budget = if ctx.tier == Tier::Thorough { 24 } else { 6 };
    crate::runner::run_cases(ctx, subj, rep, strat, ctx.cases, &|case, log| {
        let (v, ent) = split_entropy(case);
        let mut ent = Ent::new(ent);
        self_check(subj, v)?;
        let (bytes, _) = ser_bytes(subj, v)?;
        let enc = model_enc_fit(ctx, subj, ty, v, bytes.len(), log)?;
        let len = bytes.len();
        log.sample = Some(sample_json(subj, v, Some(&bytes), json!({"cuts": if len <= 600 { "every k in [0,len)".to_string() } else { "256 sampled incl. field boundaries".to_string() }})));
        let cuts: Vec<usize> = if len <= 600 && !light() {
            (0..len).collect()
        } else if light() {
            // fuzzing: a spread of cut points chosen by the input's entropy
            let mut c: Vec<usize> = vec![0, FIXED_HEADER.min(len - 1), enc.header_len.min(len - 1), len - 1];
            for b in enc.boundaries.iter().take(24) {
                c.extend([b.saturating_sub(1), *b, b + 1]);
            }
            for _ in 0..24 {
                c.push(ent.pick(len));
            }
            c.retain(|k| *k < len);
            c.sort();
            c.dedup();
            c
        } else {
            let mut c: Vec<usize> = vec![0, 1, FIXED_HEADER - 1, FIXED_HEADER, enc.header_len - 1, enc.header_len, enc.header_len + 1, len - 1, len - 2];
            for b in &enc.boundaries {
                c.extend([b.saturating_sub(1), *b, b + 1]);
            }
            while c.len() < 256 {
                c.push(ent.pick(len));
            }
            c.retain(|k| *k < len);
            c.sort();
            c.dedup();
            c
        };
        log.nontrivial = cuts.iter().any(|k| *k >= enc.header_len);
        for &k in &cuts {
            log.extra_evals += 2;
            if k >= enc.header_len {
                log.extra_nontrivial.push(hash_sub(subj.name(), v, "c11", k as u64, 0));
            }
            // full copy: exactly ReadError
            match guard(|| subj.full(&mut std::io::Cursor::new(&bytes[..k]))) {
                Ok(Err(deser::Error::ReadError)) => {}
                Ok(Err(e)) => return Err(Fail::new(&format!("trunc-full-error:{}", err_name(&e)), format!("prefix of {} of {} bytes: deserialize_full returned {:?}, not ReadError", k, len, e)).env(json!({"k": k}))),
                Ok(Ok(x)) => return Err(Fail::new("trunc-full-value", format!("prefix of {} of {} bytes was deserialized (full) into {}", k, len, x.show())).env(json!({"k": k}))),
                Err(p) => return Err(Fail::new(&format!("trunc-full-panic:{}", panic_class(&p)), format!("prefix of {} of {} bytes: deserialize_full panicked: {}", k, len, p)).env(json!({"k": k}))),
            }
            // ε-copy on the exact prefix
            let pl = Placed::new(&bytes[..k], 16384, 0);
            match guard(|| subj.eps(pl.bytes()).map(|o| o.val)) {
                Ok(Err(_)) => {}
                Ok(Ok(x)) => return Err(Fail::new("trunc-eps-value", format!("prefix of {} of {} bytes was ε-copy deserialized into {}", k, len, x.show())).env(json!({"k": k}))),
                Err(p) => {
                    if !is_bounds_panic(&p) {
                        return Err(Fail::new(&format!("trunc-eps-panic:{}", panic_class(&p)), format!("prefix of {} of {} bytes: deserialize_eps panicked with something other than a bounds check: {}", k, len, p)).env(json!({"k": k})));
                    }
                    log.classes.push("eps-bounds-panic".into());
                }
            }
        }
        if light() {
            return Ok(());
        }
        // file-backed entry points that do not zero-extend, on a few cut points of the file that `store` writes
        // (a crash while storing leaves a prefix of *that* file behind)
        let path = ctx.tmp.join(format!("c11-{}-{:?}.bin", subj.index(), std::thread::current().id()).replace(['(', ')'], ""));
        let stored: Vec<u8> = match guard(|| subj.store(v, &path)) {
            Ok(Ok(())) => std::fs::read(&path).map_err(|e| Fail::new("harness:tmpfile", format!("cannot read back the stored file: {}", e)))?,
            other => return Err(Fail::new("store-failed", format!("store failed: {:?}", other.map(|r| r.map_err(|e| format!("{:?}", e)))))),
        };
        let len = stored.len();
        let bytes = &stored;
        let mut fcuts: Vec<usize> = vec![0, enc.header_len.min(len - 1), len - 1, len.saturating_sub(2), len.saturating_sub(9), len.saturating_sub(15)];
        for _ in 0..file_budget {
            fcuts.push(ent.pick(len));
        }
        fcuts.retain(|k| *k < len);
        fcuts.sort();
        fcuts.dedup();
        // intact files of the same value under the names a backup or temporary copy would have: a loader must not
        // turn to them when the file it was asked for is cut short
        let decoys: Vec<std::path::PathBuf> = ["bak", "tmp", "old", "orig"].iter().map(|e| path.with_extension(e)).chain([".bak", "~", ".tmp", ".old"].iter().map(|suffix| {
            let mut n = path.as_os_str().to_os_string();
            n.push(suffix);
            std::path::PathBuf::from(n)
        })).collect();
        for d in &decoys {
            std::fs::write(d, &stored).map_err(|e| Fail::new("harness:tmpfile", format!("cannot write decoy file: {}", e)))?;
        }
        log.classes.push("intact-sibling-copies-present".into());
        for &k in &fcuts {
            std::fs::write(&path, &bytes[..k]).map_err(|e| Fail::new("harness:tmpfile", format!("cannot write temp file: {}", e)))?;
            log.extra_evals += 1;
            match guard(|| subj.load(Loader::LoadFull, &path, 0, crate::Script::Direct)) {
                Ok(Err(e)) => match e.downcast_ref::<deser::Error>() {
                    Some(deser::Error::ReadError) => {}
                    other => return Err(Fail::new("trunc-loadfull-error", format!("load_full of a file cut at {} of {}: error is {:?} / {}, not ReadError", k, len, other, e)).env(json!({"k": k}))),
                },
                Ok(Ok(o)) => return Err(Fail::new("trunc-loadfull-value", format!("load_full of a file cut at {} of {} returned {}", k, len, o.val.show())).env(json!({"k": k}))),
                Err(p) => return Err(Fail::new(&format!("trunc-loadfull-panic:{}", panic_class(&p)), format!("load_full of a file cut at {} of {} panicked: {}", k, len, p)).env(json!({"k": k}))),
            }
            if cfg!(feature = "mmap") {
                log.extra_evals += 1;
                match guard(|| subj.load(Loader::Mmap, &path, 0, crate::Script::Direct)) {
                    Ok(Err(_)) => {}
                    Ok(Ok(o)) => return Err(Fail::new("trunc-mmap-value", format!("mmap of a file cut at {} of {} returned {}", k, len, o.val.show())).env(json!({"k": k}))),
                    Err(p) => {
                        if !is_bounds_panic(&p) {
                            return Err(Fail::new(&format!("trunc-mmap-panic:{}", panic_class(&p)), format!("mmap of a file cut at {} of {} panicked with something other than a bounds check: {}", k, len, p)).env(json!({"k": k})));
                        }
                    }
                }
            }
        }
        std::fs::remove_file(&path).ok();
        for d in &decoys {
            std::fs::remove_file(d).ok();
        }
        Ok(())
    });
}
