use super::*;
pub fn c10(_ctx: &Ctx, _subj: &dyn DynSubject, _ty: &Ty, _rep: &mut Report) {}
pub fn c11(_ctx: &Ctx, _subj: &dyn DynSubject, _ty: &Ty, _rep: &mut Report) {}
