use super::*;
pub fn c13(_ctx: &Ctx, _subj: &dyn DynSubject, _ty: &Ty, _rep: &mut Report) {}
pub fn c14(_ctx: &Ctx, _subj: &dyn DynSubject, _ty: &Ty, _rep: &mut Report) {}
