//! C13 (writer faults) and C14 (reader fragmentation and failure).

use super::*;
use crate::faults::{FaultyReader, FaultyWriter, ReadSchedule, WriteSchedule};
use std::io::{self, BufWriter, Write};
use vmodel::val::GenCfg;

fn ks(len: usize, ent: &mut Ent, boundaries: &[usize], budget: usize) -> Vec<usize> {
    if len <= budget {
        return (0..len).collect();
    }
    let mut c: Vec<usize> = vec![0, 1, 28, 29, len - 1, len - 2];
    // every field / item boundary, or an evenly spread selection of them when there are thousands
    let step = (boundaries.len() / (4 * budget.max(1))).max(1);
    for b in boundaries.iter().step_by(step) {
        c.extend([b.saturating_sub(1), *b, b + 1]);
    }
    while c.len() < budget {
        c.push(ent.pick(len));
    }
    c.retain(|k| *k < len);
    c.sort();
    c.dedup();
    c
}

pub fn c13(ctx: &Ctx, subj: &dyn DynSubject, ty: &Ty, rep: &mut Report) {
    let strat = with_entropy(strategy_for(ctx, ty, GenCfg { max_len: 5, long: false }), 64);
    let budget = if ctx.tier == Tier::Thorough { 600 } else { 160 };
    crate::runner::run_cases(ctx, subj, rep, strat, ctx.cases, &|case, log| {
        let (v, ent) = split_entropy(case);
        let mut ent = Ent::new(ent);
        self_check(subj, v)?;
        let (bytes, _) = ser_bytes(subj, v)?;
        let enc = model_enc_fit(ctx, subj, ty, v, bytes.len(), log)?;
        let len = bytes.len();
        log.sample = Some(sample_json(subj, v, Some(&bytes), json!({"schedules": "fail@k, Ok(0)@k, flush failure, split, interrupted; plain and BufWriter sinks"})));
        let run = |sched: WriteSchedule, buffered: Option<usize>| -> Result<(Result<usize, String>, Vec<u8>, crate::SrcReport), Fail> {
            let mut fw = FaultyWriter::new(sched.clone(), len + 64);
            let out = if let Some(cap) = buffered {
                let mut bw = BufWriter::with_capacity(cap, &mut fw);
                let r = guard(|| subj.ser_src_check(v, &mut bw));
                // dropping the BufWriter may try to flush again; keep that outside the measured call
                let _ = guard(|| drop(bw));
                r
            } else {
                guard(|| subj.ser_src_check(v, &mut fw))
            };
            match out {
                Err(p) => Err(Fail::new(&format!("write-fault-panic:{}", panic_class(&p)), format!("serialization panicked under {:?}: {}", sched, p)).env(json!({"schedule": format!("{:?}", sched), "buffered": buffered}))),
                Ok((r, src)) => Ok((r.map_err(|e| format!("{:?}", e)), fw.accepted, src)),
            }
        };
        let check_src = |src: &crate::SrcReport, what: &str| -> Result<(), Fail> {
            if src.foreign_frees > 0 {
                return Err(Fail::new("write-fault-frees-source", format!("{}: serialization freed {} allocation(s) that existed before the call", what, src.foreign_frees)).env(json!({"schedule": what})));
            }
            if !src.intact {
                return Err(Fail::new("write-fault-damages-source", format!("{}: the value being serialized changed", what)).env(json!({"schedule": what})));
            }
            Ok(())
        };
        // failing schedules
        let cuts = ks(len, &mut ent, &enc.boundaries, budget);
        log.nontrivial = cuts.iter().any(|k| *k > 0);
        for &k in &cuts {
            let soft = if k % 2 == 0 { io::ErrorKind::WouldBlock } else { io::ErrorKind::TimedOut };
            for (si, sched) in [WriteSchedule::FailAt { k, kind: io::ErrorKind::Other }, WriteSchedule::ZeroAt { k }, WriteSchedule::FailOnce { k }, WriteSchedule::FailOnceKind { k, kind: soft }].into_iter().enumerate() {
                if si == 1 && k % 3 != 0 {
                    continue;
                }
                let buffered = match (k + si) % 3 {
                    0 => None,
                    1 => Some(7),
                    _ => Some(64),
                };
                let what = format!("{:?} (buffered: {:?})", sched, buffered);
                let one_shot = matches!(sched, WriteSchedule::FailOnce { .. } | WriteSchedule::FailOnceKind { .. });
                let (r, acc, src) = run(sched, buffered)?;
                log.extra_evals += 1;
                if k > 0 {
                    log.extra_nontrivial.push(hash_sub(subj.name(), v, "c13", k as u64, si as u64 * 4 + buffered.map_or(0, |c| c as u64)));
                }
                match r {
                    Err(e) if e == "WriteError" => {}
                    Err(e) => return Err(Fail::new("write-fault-wrong-error", format!("{}: returned {} instead of WriteError", what, e)).env(json!({"schedule": what}))),
                    Ok(n) => return Err(Fail::new("write-fault-success", format!("{}: serialization reported success ({} bytes) although the writer failed", what, n)).env(json!({"schedule": what}))),
                }
                // (a one-shot fault lets a buffered sink deliver the rest of its buffer when it is dropped: still a prefix)
                if (acc.len() > k && !one_shot) || !prefix_masked(&enc, &acc, &bytes) {
                    return Err(Fail::new("write-fault-not-prefix", format!("{}: the {} bytes accepted by the writer are not a prefix of the fault-free stream", what, acc.len())).env(json!({"schedule": what})));
                }
                check_src(&src, &what)?;
            }
        }
        // flush failure
        for (buffered, sched) in [(None, WriteSchedule::FlushFails), (Some(16), WriteSchedule::FlushFails), (None, WriteSchedule::FlushInterrupted)] {
            let what = format!("{:?} (buffered: {:?})", sched, buffered);
            let (r, acc, src) = run(sched, buffered)?;
            log.extra_evals += 1;
            match r {
                Err(e) if e == "WriteError" => {}
                other => return Err(Fail::new("flush-fault-not-reported", format!("{}: result is {:?} instead of Err(WriteError)", what, other)).env(json!({"schedule": what}))),
            }
            if !prefix_masked(&enc, &acc, &bytes) {
                return Err(Fail::new("write-fault-not-prefix", format!("{}: accepted bytes are not a prefix", what)).env(json!({"schedule": what})));
            }
            check_src(&src, &what)?;
        }
        // the other serialization entry points must report a failing flush / write as well
        for entry in ["serialize_with_schema", "serialize_on_field_write"] {
            let mut scheds = vec![WriteSchedule::FlushFails];
            if len > 30 {
                scheds.push(WriteSchedule::FailAt { k: 29 + ent.pick(len - 29), kind: io::ErrorKind::Other });
            }
            for sched in scheds {
                for buffered in [false, true] {
                    let mut fw = FaultyWriter::new(sched.clone(), len + 64);
                    let what = format!("{} with {:?} (buffered: {})", entry, sched, buffered);
                    log.extra_evals += 1;
                    let r = if buffered {
                        let mut bw = BufWriter::with_capacity(4096, &mut fw);
                        let r = guard(|| if entry == "serialize_with_schema" { subj.ser_schema(v, &mut bw).map(|_| ()) } else { subj.ser_traced(v, &mut bw).0 });
                        let _ = guard(|| drop(bw));
                        r
                    } else {
                        guard(|| if entry == "serialize_with_schema" { subj.ser_schema(v, &mut fw).map(|_| ()) } else { subj.ser_traced(v, &mut fw).0 })
                    };
                    match r {
                        Ok(Err(epserde::ser::Error::WriteError)) => {}
                        Ok(Err(e)) => return Err(Fail::new("write-fault-wrong-error", format!("{}: returned {:?} instead of WriteError", what, e)).env(json!({"schedule": what}))),
                        Ok(Ok(())) => return Err(Fail::new("write-fault-success", format!("{}: reported success although the writer failed", what)).env(json!({"schedule": what}))),
                        Err(p) => return Err(Fail::new(&format!("write-fault-panic:{}", panic_class(&p)), format!("{}: panicked: {}", what, p)).env(json!({"schedule": what}))),
                    }
                }
            }
        }
        // benign schedules: split and interrupted writes must deliver exactly the stream
        let rnd: Vec<usize> = (0..8).map(|_| 1 + ent.pick(13)).collect();
        let benign = vec![
            WriteSchedule::Clean,
            WriteSchedule::Split { chunks: vec![1] },
            WriteSchedule::Split { chunks: vec![2, 3, 5, 7] },
            WriteSchedule::Split { chunks: rnd.clone() },
            WriteSchedule::Interrupting { chunks: vec![1], every: 2 },
            WriteSchedule::Interrupting { chunks: rnd, every: 3 },
        ];
        for (i, sched) in benign.into_iter().enumerate() {
            let buffered = if i % 2 == 1 { Some(5) } else { None };
            let what = format!("{:?} (buffered: {:?})", sched, buffered);
            let (r, acc, src) = run(sched, buffered)?;
            log.extra_evals += 1;
            log.extra_nontrivial.push(hash_sub(subj.name(), v, "c13-benign", i as u64, 0));
            match r {
                Ok(n) if n == len => {}
                other => return Err(Fail::new("benign-writer-failed", format!("{}: result is {:?}, expected Ok({})", what, other, len)).env(json!({"schedule": what}))),
            }
            if !same_masked(&enc, &acc, &bytes) {
                return Err(Fail::new("benign-writer-bytes", format!("{}: the writer received {} bytes that differ from the fault-free stream ({} bytes)", what, acc.len(), len)).env(json!({"schedule": what})));
            }
            check_src(&src, &what)?;
        }
        // /dev/full through `store`
        if subj.index() % 4 == 0 && dev_full_ok() {
            log.extra_evals += 1;
            match guard(|| subj.store(v, std::path::Path::new("/dev/full"))) {
                Ok(Err(epserde::ser::Error::WriteError)) => {}
                other => {
                    repair_dev_full();
                    return Err(Fail::new("devfull", format!("store to /dev/full: {:?}", other.map(|r| r.map_err(|e| format!("{:?}", e))))).env(json!({"schedule": "/dev/full"})));
                }
            }
        }
        Ok(())
    });
}

pub fn c14(ctx: &Ctx, subj: &dyn DynSubject, ty: &Ty, rep: &mut Report) {
    let strat = with_entropy(strategy_for(ctx, ty, GenCfg { max_len: 6, long: false }), 64);
    let budget = if ctx.tier == Tier::Thorough { 800 } else { 200 };
    // the enumerated values (payloads of more than a mebibyte among them) go through the same schedules
    let is_big = |v: &Val| matches!(v, Val::Rec(f) if matches!(f.first(), Some(Val::Seq(x)) if x.len() > 50_000) || matches!(f.first(), Some(Val::Str(x)) if x.len() > 50_000));
    let pre: Vec<Val> = sweep_vals(ctx, ty).into_iter().filter(|v| is_big(v)).map(|v| Val::Rec(vec![v, Val::P((0..64u32).map(|i| (i * 37 + 11) as u8).collect())])).collect();
    crate::runner::run_cases_pre(ctx, subj, rep, &pre, strat, ctx.cases, &|case, log| {
        let (v, ent) = split_entropy(case);
        let mut ent = Ent::new(ent);
        self_check(subj, v)?;
        let s = classify(ctx, ty, v, log);
        let (bytes, _) = ser_bytes(subj, v)?;
        let enc = model_enc_fit(ctx, subj, ty, v, bytes.len(), log)?;
        let len = bytes.len();
        let budget = if len > 100_000 { 24 } else { budget };
        log.sample = Some(sample_json(subj, v, Some(&bytes), json!({"schedules": "chunked 1 / primes / random, interrupted, fail@k for every k"})));
        let rnd: Vec<usize> = (0..8).map(|_| 1 + ent.pick(17)).collect();
        let benign = vec![
            ReadSchedule::Chunked { chunks: vec![1] },
            ReadSchedule::Chunked { chunks: vec![2, 3, 5, 7, 11, 13] },
            ReadSchedule::Chunked { chunks: rnd.clone() },
            ReadSchedule::Interrupting { chunks: vec![1], every: 2 },
            ReadSchedule::Interrupting { chunks: rnd, every: 3 },
        ];
        log.nontrivial = s.nonempty_seq;
        for (i, sched) in benign.into_iter().enumerate() {
            let mut rd = FaultyReader::new(&bytes, sched.clone());
            log.extra_evals += 1;
            let (r, foreign) = crate::alloc::protected(|| guard(|| subj.full(&mut rd)));
            let what = format!("{:?}", sched);
            match r {
                Ok(Ok(x)) if x == *v => {}
                Ok(Ok(x)) => return Err(Fail::new("fragmented-read-value", format!("{}: value differs: {}", what, x.show())).env(json!({"schedule": what}))),
                Ok(Err(e)) => return Err(Fail::new(&format!("fragmented-read-error:{}", err_name(&e)), format!("{}: {:?}", what, e)).env(json!({"schedule": what}))),
                Err(p) => return Err(Fail::new(&format!("fragmented-read-panic:{}", panic_class(&p)), format!("{}: panicked: {}", what, p)).env(json!({"schedule": what}))),
            }
            if foreign > 0 {
                return Err(Fail::new("read-frees-foreign", format!("{}: deserialization freed {} allocation(s) it did not make", what, foreign)).env(json!({"schedule": what})));
            }
            if rd.pos != len {
                return Err(Fail::new("fragmented-read-consumed", format!("{}: consumed {} of {} bytes", what, rd.pos, len)).env(json!({"schedule": what})));
            }
            let _ = i;
        }
        for k in ks(len, &mut ent, &enc.boundaries, budget) {
            let kind = if k % 2 == 0 { io::ErrorKind::Other } else { io::ErrorKind::UnexpectedEof };
            let mut rd = FaultyReader::new(&bytes, ReadSchedule::FailAt { k, kind });
            log.extra_evals += 1;
            if k >= enc.header_len {
                log.nontrivial = true;
                log.extra_nontrivial.push(hash_sub(subj.name(), v, "c14", k as u64, 0));
            }
            let (r, foreign) = crate::alloc::protected(|| guard(|| subj.full(&mut rd)));
            match r {
                Ok(Err(deser::Error::ReadError)) => {}
                Ok(Err(e)) => return Err(Fail::new(&format!("read-fault-error:{}", err_name(&e)), format!("reader failing after {} bytes: {:?} instead of ReadError", k, e)).env(json!({"k": k}))),
                Ok(Ok(x)) => return Err(Fail::new("read-fault-value", format!("reader failing after {} of {} bytes, yet a value was returned: {}", k, len, x.show())).env(json!({"k": k}))),
                Err(p) => return Err(Fail::new(&format!("read-fault-panic:{}", panic_class(&p)), format!("reader failing after {} bytes: panicked: {}", k, p)).env(json!({"k": k}))),
            }
            if foreign > 0 {
                return Err(Fail::new("read-frees-foreign", format!("reader failing after {} bytes: {} foreign frees", k, foreign)).env(json!({"k": k})));
            }
            // the same position with a reader that fails once and would deliver the rest afterwards (followed by
            // other data on the same stream): the bytes consumed before the failure are gone, so the only sound
            // outcome is a read error; a value can only come from re-reading at a shifted position
            if k % 3 == 0 && k < len {
                let kind = if k % 2 == 0 { io::ErrorKind::WouldBlock } else { io::ErrorKind::TimedOut };
                let mut longer = bytes.clone();
                longer.extend_from_slice(&bytes);
                let mut rd = FaultyReader::new(&longer, ReadSchedule::FailOnceAt { k, kind });
                log.extra_evals += 1;
                match guard(|| subj.full(&mut rd)) {
                    Ok(Err(deser::Error::ReadError)) => {}
                    Ok(Err(e)) => return Err(Fail::new(&format!("read-once-fault-error:{}", err_name(&e)), format!("reader failing once ({:?}) after {} bytes: {:?} instead of ReadError", kind, k, e)).env(json!({"k": k, "once": true}))),
                    Ok(Ok(x)) => return Err(Fail::new("read-once-fault-value", format!("reader failing once ({:?}) after {} of {} bytes, yet a value was returned: {}", kind, k, len, x.show())).env(json!({"k": k, "once": true}))),
                    Err(p) => return Err(Fail::new(&format!("read-once-fault-panic:{}", panic_class(&p)), format!("reader failing once ({:?}) after {} bytes: panicked: {}", kind, k, p)).env(json!({"k": k, "once": true}))),
                }
            }
        }
        Ok(())
    });
}

#[allow(dead_code)]
fn _w(_: &mut dyn Write) {}
