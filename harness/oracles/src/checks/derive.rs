//! C05 (run-time part): derived implementations round-trip in both modes and have the documented
//! ε-copy / serialization types. The compile-time part (the generated program compiles) is the driver's.

use super::basic::{real_max_unit, traced};
use super::*;
use crate::faults::Placed;
use vmodel::ty::Body;
use vmodel::val::GenCfg;

pub fn c05(ctx: &Ctx, subj: &dyn DynSubject, ty: &Ty, rep: &mut Report) {
    let Ty::Adt(i, _) = ty else {
        *rep.excluded.entry("subjects that are not user-defined types".into()).or_default() += 1;
        return;
    };
    let def = &ctx.u.adts[*i];
    let interesting = !def.params.is_empty() || def.n_variants() >= 2;
    let shape = format!(
        "{}-{}{}{}",
        if def.is_zero() { "zero" } else { "deep" },
        if matches!(def.body, Body::Struct(_)) { "struct" } else { "enum" },
        if def.params.is_empty() { "" } else { "-generic" },
        if def.where_preds.is_empty() { "" } else { "-where" }
    );
    rep.evaluations += 2;
    if !subj.deser_type_is_documented() {
        rep.failures.push(crate::report::Failure {
            property: ctx.prop.clone(),
            subject: subj.name().into(),
            subject_index: subj.index(),
            val: None,
            env: Value::Null,
            message: format!("the ε-copy type of {} is not the documented one ({})", subj.name(), ctx.model.deser_ty(ty)),
            signature: "desertype-mismatch".into(),
        });
        return;
    }
    if !subj.ser_type_is_self() {
        rep.failures.push(crate::report::Failure {
            property: ctx.prop.clone(),
            subject: subj.name().into(),
            subject_index: subj.index(),
            val: None,
            env: Value::Null,
            message: format!("the serialization type of the owned type {} is not the type itself", subj.name()),
            signature: "sertype-mismatch".into(),
        });
        return;
    }
    let strat = strategy_for(ctx, ty, GenCfg::default());
    crate::runner::run_cases(ctx, subj, rep, strat, ctx.cases, &|v, log| {
        self_check(subj, v)?;
        classify(ctx, ty, v, log);
        log.nontrivial = interesting;
        log.classes.push(shape.clone());
        let (bytes, events) = traced(subj, v)?;
        log.sample = Some(sample_json(subj, v, Some(&bytes), json!({"definition": vmodel::render::adt_def(ctx.u, def), "eps_type": ctx.model.deser_ty(ty)})));
        match full_of(subj, &bytes) {
            Ok(Ok(x)) if x == *v => {}
            Ok(Ok(x)) => return Err(Fail::new("derive-full-mismatch", format!("full-copy round trip changed the value: {}", x.show()))),
            Ok(Err(e)) => return Err(Fail::new(&format!("derive-full-error:{}", err_name(&e)), format!("full-copy failed: {:?}", e))),
            Err(p) => return Err(Fail::new(&format!("derive-full-panic:{}", panic_class(&p)), format!("full-copy panicked: {}", p))),
        }
        let l2 = real_max_unit(&events).next_power_of_two();
        for (what, pl) in [("page-aligned", Placed::new(&bytes, 16384, 0)), ("odd multiple of the unit", Placed::new(&bytes, 2 * l2, l2))] {
            match guard(|| subj.eps(pl.bytes()).map(|o| o.val)) {
                Ok(Ok(x)) if x == *v => {}
                Ok(Ok(x)) => return Err(Fail::new("derive-eps-mismatch", format!("ε-copy ({}) changed the value: {}", what, x.show()))),
                Ok(Err(e)) => return Err(Fail::new(&format!("derive-eps-error:{}", err_name(&e)), format!("ε-copy ({}) failed: {:?}", what, e))),
                Err(p) => return Err(Fail::new(&format!("derive-eps-panic:{}", panic_class(&p)), format!("ε-copy ({}) panicked: {}", what, p))),
            }
        }
        Ok(())
    });
}
