//! C08 on files of more than two gibibytes: the stream of a structure whose first field is a byte vector of
//! about 2^31 items (a hole in a sparse file, with marker bytes at generated offsets) followed by further fields.
//! Every loader must deliver the same structure that the bytes of the file describe; nothing here depends on the
//! generated universes, the type is a derived generic structure of this crate.
//!
//! Linux transfers at most 0x7ffff000 bytes per read(2): the hole lengths straddle that limit and 2^31.

use crate::report::{Failure, Report};
use crate::runner::guard;
use crate::runner::Tier;
use epserde::prelude::*;
use proptest::prelude::*;
use proptest::test_runner::{Config, RngSeed, TestRunner};
use serde_json::{json, Value};
use std::os::unix::fs::FileExt;
use vmodel::format::FIXED_HEADER;

#[derive(Epserde, Debug, Clone, PartialEq)]
pub struct BigPre<A, B> {
    pub a: A,
    pub b: B,
    pub t: u32,
}

type Big = BigPre<Vec<u8>, Vec<u64>>;

#[derive(Clone, Debug)]
struct Case {
    hole: u64,
    marks: Vec<(u64, u8)>,
    items: Vec<u64>,
    t: u32,
}

fn case_json(c: &Case) -> Value {
    json!({"hole": c.hole, "marks": c.marks, "items": c.items, "t": c.t})
}

fn case_from(j: &Value) -> Option<Case> {
    Some(Case {
        hole: j["hole"].as_u64()?,
        marks: j["marks"].as_array()?.iter().filter_map(|m| Some((m[0].as_u64()?, m[1].as_u64()? as u8))).collect(),
        items: j["items"].as_array()?.iter().filter_map(|x| x.as_u64()).collect(),
        t: j["t"].as_u64()? as u32,
    })
}

fn strategy() -> impl Strategy<Value = Case> {
    let hole = prop_oneof![
        (0u64..8192).prop_map(|d| (1u64 << 31) - 4096 + d),
        (0u64..8192).prop_map(|d| 0x7fff_f000u64 - 4096 + d),
        Just(1u64 << 31),
        Just(0x7fff_f000u64),
    ];
    (hole, proptest::collection::vec((0u64..(1 << 31) - 8192, 1u8..=255), 1..6), proptest::collection::vec(any::<u64>(), 1..600), any::<u32>()).prop_map(|(hole, mut marks, items, t)| {
        // one marker right at the end of the hole and one at its start
        marks.push((hole - 1, 0xee));
        marks.push((0, 0x11));
        marks.sort();
        marks.dedup_by_key(|m| m.0);
        Case { hole, marks, items, t }
    })
}

fn pad8(p: u64) -> u64 {
    (8 - p % 8) % 8
}

/// Write the stream of `BigPre { a: <hole bytes>, b: items, t }` as a sparse file; returns its length.
fn write_file(path: &std::path::Path, c: &Case) -> Result<u64, String> {
    let small = Big { a: vec![], b: c.items.clone(), t: c.t };
    let mut sb = vec![];
    small.serialize(&mut sb).map_err(|e| format!("serializing the small value failed: {:?}", e))?;
    let h = FIXED_HEADER + 8 + core::any::type_name::<Big>().len();
    if sb.len() < h + 16 || sb[h..h + 8] != 0usize.to_ne_bytes() || sb[h + 8..h + 16] != c.items.len().to_ne_bytes() {
        return Err(format!("the stream of the small value does not have the expected shape (header length {})", h));
    }
    let _ = std::fs::remove_file(path);
    let f = std::fs::File::create(path).map_err(|e| e.to_string())?;
    let w = |off: u64, b: &[u8]| f.write_all_at(b, off).map_err(|e| e.to_string());
    w(0, &sb[..h])?;
    w(h as u64, &(c.hole as usize).to_ne_bytes())?;
    let a0 = h as u64 + 8;
    for (o, b) in &c.marks {
        w(a0 + o, &[*b])?;
    }
    let mut p = a0 + c.hole;
    w(p, &c.items.len().to_ne_bytes())?;
    p += 8;
    p += pad8(p);
    let ib: Vec<u8> = c.items.iter().flat_map(|x| x.to_ne_bytes()).collect();
    w(p, &ib)?;
    p += ib.len() as u64;
    w(p, &c.t.to_ne_bytes())?;
    p += 4;
    f.set_len(p).map_err(|e| e.to_string())?;
    Ok(p)
}

fn verify(what: &str, c: &Case, a: &[u8], b: &[u64], t: u32) -> Result<(), (String, String)> {
    if a.len() as u64 != c.hole {
        return Err((format!("bigfile-{}-length", what), format!("{}: the first field has {} items instead of {}", what, a.len(), c.hole)));
    }
    if b != c.items.as_slice() {
        let shown: Vec<_> = b.iter().take(4).collect();
        return Err((format!("bigfile-{}-tail", what), format!("{}: the vector stored after {} bytes has {} items (first: {:?}) instead of the {} written", what, c.hole, b.len(), shown, c.items.len())));
    }
    if t != c.t {
        return Err((format!("bigfile-{}-tail", what), format!("{}: last field is {} instead of {}", what, t, c.t)));
    }
    for (o, m) in &c.marks {
        if a[*o as usize] != *m {
            return Err((format!("bigfile-{}-content", what), format!("{}: byte {} of the first field is {:#x} instead of {:#x}", what, o, a[*o as usize], m)));
        }
    }
    // a spread of unmarked positions, and the neighbours of every marker, must be zero
    let marked: std::collections::BTreeSet<u64> = c.marks.iter().map(|m| m.0).collect();
    let mut probe: Vec<u64> = (0..4096u64).map(|k| k * (c.hole / 4096)).collect();
    for (o, _) in &c.marks {
        probe.extend([o.saturating_sub(1), (o + 1).min(c.hole - 1)]);
    }
    for o in probe {
        if !marked.contains(&o) && a[o as usize] != 0 {
            return Err((format!("bigfile-{}-content", what), format!("{}: byte {} of the first field is {:#x} instead of 0", what, o, a[o as usize])));
        }
    }
    Ok(())
}

fn check(c: &Case, tmp: &std::path::Path, rep: &mut Report, thorough: bool) -> Result<(), (String, String)> {
    let path = tmp.join(format!("c08-big-{}.bin", std::process::id()));
    let len = write_file(&path, c).map_err(|e| ("harness:bigfile".to_string(), e))?;
    let res = (|| {
        let run = |what: &str, f: &dyn Fn() -> Result<(), (String, String)>| -> Result<(), (String, String)> {
            match guard(f) {
                Ok(r) => r,
                Err(p) => Err((format!("bigfile-{}-panic", what), format!("{} of a file of {} bytes panicked: {}", what, len, p))),
            }
        };
        rep.evaluations += 1;
        run("load_full", &|| {
            let v = <Big>::load_full(&path).map_err(|e| ("bigfile-load_full-error".to_string(), format!("load_full of a file of {} bytes failed: {}", len, e)))?;
            verify("load_full", c, &v.a, &v.b, v.t)
        })?;
        rep.evaluations += 1;
        run("load_mem", &|| {
            let m = <Big>::load_mem(&path).map_err(|e| ("bigfile-load_mem-error".to_string(), format!("load_mem of a file of {} bytes failed: {}", len, e)))?;
            verify("load_mem", c, m.a, m.b, m.t)
        })?;
        #[cfg(feature = "mmap")]
        {
            let all = [Flags::empty(), Flags::TRANSPARENT_HUGE_PAGES, Flags::SEQUENTIAL | Flags::RANDOM_ACCESS];
            for flags in all.into_iter().take(if thorough { 3 } else { 1 }) {
                rep.evaluations += 2;
                run("load_mmap", &|| {
                    let m = <Big>::load_mmap(&path, flags).map_err(|e| ("bigfile-load_mmap-error".to_string(), format!("load_mmap ({:?}) of a file of {} bytes failed: {}", flags, len, e)))?;
                    verify("load_mmap", c, m.a, m.b, m.t)
                })?;
                run("mmap", &|| {
                    let m = <Big>::mmap(&path, flags).map_err(|e| ("bigfile-mmap-error".to_string(), format!("mmap ({:?}) of a file of {} bytes failed: {}", flags, len, e)))?;
                    verify("mmap", c, m.a, m.b, m.t)
                })?;
            }
        }
        Ok(())
    })();
    std::fs::remove_file(&path).ok();
    res
}

pub fn run(tier: Tier, seed: u64, tmp: &std::path::Path, replay: Option<&Value>) -> Report {
    let mut rep = Report::default();
    let fail = |rep: &mut Report, c: &Case, sig: String, msg: String| {
        rep.failures.push(Failure { property: "C08".into(), subject: "BigPre<Vec<u8>, Vec<u64>> (file of more than 2 GiB)".into(), subject_index: 0, val: None, env: json!({"bigfile": case_json(c)}), message: msg, signature: sig });
    };
    if let Some(r) = replay {
        if let Some(c) = case_from(&r["env"]["bigfile"]) {
            if let Err((sig, msg)) = check(&c, tmp, &mut rep, true) {
                fail(&mut rep, &c, sig, msg);
            }
        }
        return rep;
    }
    let cases = if tier == Tier::Thorough { 4 } else { 1 };
    let mut runner = TestRunner::new(Config { cases, failure_persistence: None, rng_seed: RngSeed::Fixed(vmodel::mix_seed(&["C08", "bigfile"], seed)), max_shrink_iters: 3, ..Config::default() });
    let rep_cell = std::cell::RefCell::new(rep);
    let last: std::cell::RefCell<Option<(Case, String, String)>> = std::cell::RefCell::new(None);
    let result = runner.run(&strategy(), |c| {
        let mut rep = rep_cell.borrow_mut();
        let counting = last.borrow().is_none();
        let mut scratch = Report::default();
        let r = check(&c, tmp, if counting { &mut *rep } else { &mut scratch }, tier == Tier::Thorough);
        if counting {
            rep.nontrivial.insert(crate::report::hash_case(&["bigfile"], &vmodel::val::Val::Unit, c.hole ^ (c.items.len() as u64) << 40));
            rep.class(if c.hole >= 1 << 31 { "file-over-2GiB" } else { "file-over-0x7ffff000-bytes" });
            rep.sample(json!({"subject": "BigPre<Vec<u8>, Vec<u64>>", "hole_bytes": c.hole, "markers": c.marks.len(), "items_after": c.items.len()}));
        }
        match r {
            Ok(()) => Ok(()),
            Err((sig, msg)) => {
                *last.borrow_mut() = Some((c.clone(), sig, msg.clone()));
                Err(TestCaseError::fail(msg))
            }
        }
    });
    let mut rep = rep_cell.into_inner();
    if result.is_err() {
        if let Some((c, sig, msg)) = last.into_inner() {
            fail(&mut rep, &c, sig, msg);
        }
    }
    rep
}

/// C01 / C07 beyond 2^30 bytes: a byte vector of 2^30 + 7 items (more than any single-write limit somebody might
/// introduce) is serialized into memory; the returned count, the stream length and the content agree with the
/// format, and both deserializers give the vector back. One case per run, about 3 GiB of memory for a moment.
pub fn run_giant(seed: u64) -> Report {
    let mut rep = Report::default();
    let n: usize = (1 << 30) + 7 + (seed as usize % 5);
    let mut v = vec![0u8; n];
    let marks: Vec<usize> = vec![0, 1, 4095, 4096, (1 << 20) - 1, 1 << 20, (1 << 30) - 1, 1 << 30, n - 2, n - 1];
    for (k, m) in marks.iter().enumerate() {
        v[*m] = 0x31 + k as u8;
    }
    rep.evaluations += 1;
    rep.class("vector-over-2^30-bytes");
    rep.nontrivial.insert(crate::report::hash_case(&["giant"], &vmodel::val::Val::Unit, n as u64));
    rep.sample(json!({"subject": "Vec<u8>", "items": n, "markers": marks.len()}));
    let mut fail = |sig: &str, msg: String| {
        rep.failures.push(Failure { property: "C01".into(), subject: "Vec<u8> (more than 2^30 items)".into(), subject_index: 0, val: None, env: json!({"giant": n}), message: msg, signature: sig.into() });
    };
    let header = FIXED_HEADER + 8 + core::any::type_name::<Vec<u8>>().len();
    let expected = header + 8 + n;
    let mut sink: Vec<u8> = Vec::with_capacity(expected + 64);
    let r = guard(|| v.serialize(&mut sink));
    match r {
        Ok(Ok(count)) => {
            if count != sink.len() || sink.len() != expected {
                fail("giant-length", format!("serializing a Vec<u8> of {} items returned {}, the writer received {} bytes, the format prescribes {}", n, count, sink.len(), expected));
                return rep;
            }
        }
        other => {
            fail("giant-serialize", format!("serializing a Vec<u8> of {} items: {:?}", n, other.map(|r| r.map_err(|e| format!("{:?}", e)))));
            return rep;
        }
    }
    if sink[header..header + 8] != n.to_ne_bytes() || marks.iter().enumerate().any(|(k, m)| sink[header + 8 + m] != 0x31 + k as u8) {
        fail("giant-content", format!("the stream of a Vec<u8> of {} items does not hold the length and the marked bytes where the format puts them", n));
        return rep;
    }
    let same = |got: &[u8]| got.len() == n && marks.iter().enumerate().all(|(k, m)| got[*m] == 0x31 + k as u8) && (0..4096).all(|j| { let p = j * (n / 4096) + 7; marks.contains(&p) || got[p] == 0 });
    match guard(|| <Vec<u8>>::deserialize_eps(&sink)) {
        Ok(Ok(s)) if same(s) => {}
        other => {
            fail("giant-eps", format!("ε-copy of the stream of a Vec<u8> of {} items: {}", n, match other { Ok(Ok(s)) => format!("a slice of {} items with other content", s.len()), Ok(Err(e)) => format!("{:?}", e), Err(p) => format!("panicked: {}", p) }));
            return rep;
        }
    }
    match guard(|| <Vec<u8>>::deserialize_full(&mut std::io::Cursor::new(&sink[..]))) {
        Ok(Ok(s)) if same(&s) => {}
        other => fail("giant-full", format!("full copy of the stream of a Vec<u8> of {} items: {}", n, match other { Ok(Ok(s)) => format!("a vector of {} items with other content", s.len()), Ok(Err(e)) => format!("{:?}", e), Err(p) => format!("panicked: {}", p) })),
    }
    rep
}
