//! C08: file loaders.

use super::*;
use crate::faults::Placed;
use crate::{Loader, Script};
use vmodel::val::GenCfg;

pub const SCRIPTS: [Script; 6] = [Script::Direct, Script::Boxed, Script::ThroughVec, Script::SendToThread, Script::SharedThreads, Script::DropElsewhere];

pub fn c08(ctx: &Ctx, subj: &dyn DynSubject, ty: &Ty, rep: &mut Report) {
    let strat = with_entropy(strategy_for(ctx, ty, GenCfg { max_len: 9, long: true }), 16);
    let hook = cfg!(epserde_verif);
    if !hook {
        rep.notes.push("built without the epserde_verif hook: region checks skipped".into());
    }
    // enumerated payloads of more than a mebibyte, one of them all zeros and last in the stream (what a store that
    // turns runs of zeros into holes would have to get right)
    let mut pre: Vec<Val> = sweep_vals(ctx, ty).into_iter().filter(|v| matches!(v, Val::Rec(f) if matches!(f.first(), Some(Val::Seq(x)) if x.len() > 100_000 && matches!(x.first(), Some(Val::P(_)))))).collect();
    if let Some(Val::Rec(f)) = pre.first().cloned() {
        if let Some(Val::Seq(items)) = f.first() {
            let zero = match &items[0] { Val::P(b) => Val::P(vec![0; b.len()]), x => x.clone() };
            let mut g = f.clone();
            g[0] = Val::Seq(vec![zero; items.len()]);
            pre.push(Val::Rec(g));
        }
    }
    let pre: Vec<Val> = pre.into_iter().map(|v| Val::Rec(vec![v, Val::P((0..16u32).map(|i| (i * 53 + 7) as u8).collect())])).collect();
    crate::runner::run_cases_pre(ctx, subj, rep, &pre, strat, ctx.cases, &|case, log| {
        let (v, ent) = split_entropy(case);
        let mut ent = Ent::new(ent);
        self_check(subj, v)?;
        let (bytes, _) = ser_bytes(subj, v)?;
        let enc = model_enc_fit(ctx, subj, ty, v, bytes.len(), log)?;
        let path = ctx.tmp.join(format!("c08-{}-{:?}.bin", subj.index(), std::thread::current().id()).replace(['(', ')'], ""));
        // history: a store that fails after its file was opened (the device is full) must not influence the next one
        let failed_first = ent.pick(3) == 0 && dev_full_ok() && !bytes.is_empty();
        if failed_first {
            log.classes.push("store-after-failed-store".into());
            log.extra_evals += 1;
            match guard(|| subj.store(v, std::path::Path::new("/dev/full"))) {
                Ok(Ok(())) => {
                    let replaced = !dev_full_ok();
                    repair_dev_full();
                    return Err(Fail::new("store-to-full-device-succeeded", format!("store to /dev/full returned Ok although no byte can be written there{}", if replaced { " (and the device node was replaced by a regular file)" } else { "" })));
                }
                Ok(Err(_)) => {}
                Err(p) => return Err(Fail::new(&format!("store-panic:{}", panic_class(&p)), format!("store to /dev/full panicked: {}", p))),
            }
        }
        // files next to the destination that share its stem (a previous temporary, a backup, another component of
        // the same data set) must survive the store, and another thread storing to such a sibling at the same time
        // must not disturb it
        let sibling_exts = ["tmp", "bak", "part", "aux"];
        let sentinel: Vec<u8> = (0..37u8).map(|i| i.wrapping_mul(29) ^ 0x5c).collect();
        for e in &sibling_exts[..3] {
            std::fs::write(path.with_extension(e), &sentinel).map_err(|e| Fail::new("harness:tmpfile", format!("cannot write sibling file: {}", e)))?;
        }
        let concurrent = ent.pick(2) == 0;
        let aux_path = path.with_extension("aux");
        let aux_result = std::thread::scope(|sc| {
            let h = if concurrent { Some(sc.spawn(|| guard(|| subj.store(v, &aux_path)))) } else { None };
            // store writes exactly the serialized bytes
            let main = guard(|| subj.store(v, &path));
            (main, h.map(|h| h.join()))
        });
        match aux_result.0 {
            Ok(Ok(())) => {}
            other => return Err(Fail::new("store-failed", format!("store failed{}: {:?}", if concurrent { " (while another thread stored the same value to a file with the same stem)" } else { "" }, other.map(|r| r.map_err(|e| format!("{:?}", e)))))),
        }
        if concurrent {
            log.classes.push("two-concurrent-stores-same-stem".into());
            log.extra_evals += 1;
            match aux_result.1 {
                Some(Ok(Ok(Ok(())))) => {}
                other => return Err(Fail::new("store-failed", format!("concurrent store to a sibling file failed: {:?}", other.map(|r| r.map(|r| r.map(|r| r.map_err(|e| format!("{:?}", e)))).map_err(|_| "thread panicked"))))),
            }
            let aux = std::fs::read(&aux_path).map_err(|e| Fail::new("store-bytes", format!("the file stored concurrently under the same stem cannot be read back: {}", e)))?;
            if aux.len() != bytes.len() || !same_masked(&enc, &aux, &bytes) {
                return Err(Fail::new("store-bytes", format!("two threads stored the same value to {:?} and {:?} at the same time: the second file has {} bytes, serialize produces {} (or contents differ)", path.file_name(), aux_path.file_name(), aux.len(), bytes.len())));
            }
            std::fs::remove_file(&aux_path).ok();
        }
        for e in &sibling_exts[..3] {
            let sp = path.with_extension(e);
            match std::fs::read(&sp) {
                Ok(b) if b == sentinel => {}
                other => return Err(Fail::new("store-disturbs-sibling", format!("after store to {:?} the unrelated file {:?} next to it {}", path.file_name(), sp.file_name(), match other { Ok(b) => format!("holds {} other bytes", b.len()), Err(e) => format!("is gone ({})", e) }))),
            }
            std::fs::remove_file(&sp).ok();
        }
        let file = std::fs::read(&path).map_err(|e| Fail::new("harness:tmpfile", format!("cannot read back temp file: {}", e)))?;
        if file.len() != bytes.len() || !same_masked(&enc, &file, &bytes) {
            return Err(Fail::new("store-bytes", format!("store wrote {} bytes, serialize produces {} (or contents differ){}", file.len(), bytes.len(), if failed_first { "; a store to a full device had failed just before on this thread" } else { "" })));
        }
        // the loaders are given either the path of the file or a symbolic link to it
        let link = path.with_extension("lnk");
        let _ = std::fs::remove_file(&link);
        let via_link = ent.pick(2) == 0 && std::os::unix::fs::symlink(&path, &link).is_ok();
        if via_link {
            log.classes.push("loaded-through-symlink".into());
        }
        let stored_path = path.clone();
        let path = if via_link { link.clone() } else { path };
        log.classes.push(format!("len-mod64-{}", file.len() % 64));
        // reference: ε-copy of the file bytes
        let pl = Placed::new(&file, 16384, 0);
        let reference = match guard(|| subj.eps(pl.bytes())) {
            Ok(Ok(o)) => o,
            other => return Err(Fail::new("eps-of-file", format!("deserialize_eps of the file bytes failed: {:?}", other.map(|r| r.map(|o| o.val.show()).map_err(|e| format!("{:?}", e)))))),
        };
        let nonempty_borrow = reference.borrows.iter().any(|b| b.len > 0);
        log.nontrivial = nonempty_borrow;
        log.sample = Some(sample_json(subj, v, Some(&file), json!({"file_len": file.len(), "borrows": reference.borrows.len()})));
        // loaders x flags x scripts: all 8 flag sets for the mapping loaders, scripts rotated
        let mut combos: Vec<(Loader, u32, Script)> = vec![(Loader::LoadFull, 0, Script::Direct), (Loader::LoadFull, 0, Script::Boxed)];
        for (i, sc) in SCRIPTS.iter().enumerate() {
            let _ = i;
            combos.push((Loader::LoadMem, 0, *sc));
        }
        if cfg!(feature = "mmap") {
            let rot = ent.pick(SCRIPTS.len());
            for flags in 0..8u32 {
                combos.push((Loader::LoadMmap, flags, SCRIPTS[(rot + flags as usize) % SCRIPTS.len()]));
                combos.push((Loader::Mmap, flags, SCRIPTS[(rot + 3 + flags as usize) % SCRIPTS.len()]));
            }
        }
        for (loader, flags, script) in combos {
            log.extra_evals += 1;
            log.classes.push(format!("{:?}", loader));
            if nonempty_borrow {
                log.extra_nontrivial.push(hash_sub(subj.name(), v, "c08", loader as u64 * 64 + flags as u64 * 8 + script as u64, 0));
            }
            let what = format!("{:?} flags={:03b} script={:?}{}", loader, flags, script, if via_link { " (path is a symbolic link to the file)" } else { "" });
            let env = json!({"loader": format!("{:?}", loader), "flags": flags, "script": format!("{:?}", script)});
            let out = match guard(|| subj.load(loader, &path, flags, script)) {
                Err(p) => return Err(Fail::new(&format!("load-panic:{}", panic_class(&p)), format!("{}: panicked: {}", what, p)).env(env)),
                Ok(Err(e)) => {
                    // an OS-level refusal of a mapping flag is inconclusive, not a violation
                    let msg = format!("{:#}", e);
                    if e.downcast_ref::<deser::Error>().is_none() && loader != Loader::LoadFull && loader != Loader::LoadMem && flags != 0 {
                        log.classes.push("os-refused-flags".into());
                        continue;
                    }
                    return Err(Fail::new("load-error", format!("{}: failed: {}", what, msg)).env(env));
                }
                Ok(Ok(o)) => o,
            };
            if out.val != *v || out.val != reference.val {
                return Err(Fail::new("load-mismatch", format!("{}: loaded structure differs from ε-copy of the file bytes: {}", what, out.val.show())).env(env));
            }
            if loader == Loader::LoadFull {
                continue;
            }
            if out.borrows.len() != reference.borrows.len() {
                return Err(Fail::new("load-borrow-count", format!("{}: {} borrows, ε-copy of the bytes has {}", what, out.borrows.len(), reference.borrows.len())).env(env));
            }
            if hook {
                let Some((base, rlen)) = out.region else {
                    return Err(Fail::new("load-no-region", format!("{}: the result owns no backing region", what)).env(env));
                };
                for (i, (b, r)) in out.borrows.iter().zip(&reference.borrows).enumerate() {
                    if b.len != r.len {
                        return Err(Fail::new("load-borrow-len", format!("{}: borrow #{} has {} bytes, expected {}", what, i, b.len, r.len)).env(env));
                    }
                    if b.ptr < base || b.ptr + b.len > base + rlen {
                        return Err(Fail::new("load-borrow-outside-region", format!("{}: borrow #{} [{:#x},+{}) lies outside the backing region [{:#x},+{})", what, i, b.ptr, b.len, base, rlen)).env(env));
                    }
                    if b.ptr - base != r.ptr - pl.addr() {
                        return Err(Fail::new("load-borrow-offset", format!("{}: borrow #{} at region offset {}, ε-copy of the bytes has it at {}", what, i, b.ptr - base, r.ptr - pl.addr())).env(env));
                    }
                }
                if base % 64 != 0 {
                    return Err(Fail::new("region-misaligned", format!("{}: backing region at {:#x} is not aligned to 64", what, base)).env(env));
                }
                if out.prefix_is_file != Some(true) {
                    return Err(Fail::new("region-not-file", format!("{}: the backing region does not start with the file's bytes", what)).env(env));
                }
                match loader {
                    Loader::LoadMem | Loader::LoadMmap => {
                        if rlen < file.len() || rlen % 16 != 0 {
                            return Err(Fail::new("region-length", format!("{}: region of {} bytes for a file of {} bytes is not rounded up", what, rlen, file.len())).env(env));
                        }
                        if out.tail_zero != Some(true) {
                            return Err(Fail::new("region-tail-not-zero", format!("{}: bytes after the end of the file in the backing region are not all zero", what)).env(env));
                        }
                        if rlen > file.len() {
                            log.classes.push("has-zero-tail".into());
                        }
                    }
                    Loader::Mmap => {
                        if rlen != file.len() {
                            return Err(Fail::new("region-length", format!("{}: mapping of {} bytes for a file of {} bytes", what, rlen, file.len())).env(env));
                        }
                    }
                    Loader::LoadFull => {}
                }
            }
        }
        // an in-memory structure encased without a backend behaves like a loaded one
        log.extra_evals += 1;
        match guard(|| subj.encase(v)) {
            Ok(Ok(())) => {}
            Ok(Err(e)) => return Err(Fail::new("encase-mismatch", e)),
            Err(p) => return Err(Fail::new(&format!("encase-panic:{}", panic_class(&p)), format!("MemCase::encase panicked: {}", p))),
        }
        // load_full reads sequentially: the same bytes arriving through a named pipe, in fragments, give the same value
        if ent.pick(6) == 0 && !file.is_empty() {
            use std::os::unix::ffi::OsStrExt;
            let fifo = stored_path.with_extension("fifo");
            let _ = std::fs::remove_file(&fifo);
            let cpath = std::ffi::CString::new(fifo.as_os_str().as_bytes()).unwrap();
            if unsafe { libc::mkfifo(cpath.as_ptr(), 0o600) } == 0 {
                log.classes.push("load_full-from-named-pipe".into());
                log.extra_evals += 1;
                let chunk = 1 + ent.pick(4096);
                let data = file.clone();
                let wpath = fifo.clone();
                let writer = std::thread::spawn(move || {
                    use std::io::Write;
                    if let Ok(mut f) = std::fs::OpenOptions::new().write(true).open(&wpath) {
                        for c in data.chunks(chunk) {
                            if f.write_all(c).is_err() {
                                break;
                            }
                        }
                    }
                });
                let r = guard(|| subj.load(Loader::LoadFull, &fifo, 0, Script::Direct));
                // unblock a writer that nobody listened to, then collect it
                {
                    use std::os::unix::fs::OpenOptionsExt;
                    let _ = std::fs::OpenOptions::new().read(true).custom_flags(libc::O_NONBLOCK).open(&fifo);
                }
                let _ = writer.join();
                std::fs::remove_file(&fifo).ok();
                match r {
                    Ok(Ok(o)) if o.val == *v => {}
                    other => {
                        return Err(Fail::new("load-full-from-pipe", format!("load_full of a named pipe delivering the {} bytes of the file in chunks of {}: {:?}", file.len(), chunk, other.map(|r| r.map(|o| o.val.show()).map_err(|e| format!("{:#}", e))))).env(json!({"loader": "LoadFull", "pipe": true})))
                    }
                }
            }
        }
        std::fs::remove_file(&link).ok();
        std::fs::remove_file(&stored_path).ok();
        Ok(())
    });
}
