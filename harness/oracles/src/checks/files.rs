use super::*;
pub fn c08(_ctx: &Ctx, _subj: &dyn DynSubject, _ty: &Ty, _rep: &mut Report) {}
