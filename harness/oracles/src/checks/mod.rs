//! Property checks over `DynSubject`.

use crate::report::Report;
use crate::runner::{guard, CaseLog, CheckFn, Ctx, Fail, Tier};
use crate::DynSubject;
use epserde::deser;
use serde_json::{json, Value};
use vmodel::format::Encoded;
use vmodel::ty::Ty;
use vmodel::val::{shape, Val};

pub mod basic;
pub mod bigfile;
pub mod contexts;
pub mod cross;
pub mod cursor;
pub mod derive;
pub mod faultio;
pub mod files;
pub mod format;
pub mod header;
pub mod lifetime;
pub mod placement;
pub mod schema;
pub mod tags;

pub fn lookup(prop: &str) -> Option<CheckFn> {
    Some(match prop {
        "C01" => basic::c01,
        "C02" => basic::c02,
        "C03" => basic::c03,
        "C05" => derive::c05,
        "C06" => format::c06,
        "C07" => format::c07,
        "C08" => files::c08,
        "C09" => lifetime::c09,
        "C10" => header::c10,
        "C11" => header::c11,
        "C12" => placement::c12,
        "C13" => faultio::c13,
        "C14" => faultio::c14,
        "C15" => tags::c15,
        "C18" => schema::c18,
        _ => return None,
    })
}

pub fn default_cases(prop: &str, tier: Tier) -> u32 {
    let (q, t) = match prop {
        "C01" | "C02" | "C03" | "C05" | "C06" | "C07" | "C18" => (64, 512),
        "C10" => (6, 24),
        "C11" => (12, 64),
        "C12" => (12, 64),
        "C13" | "C14" => (10, 48),
        "C15" => (16, 96),
        "C08" => (6, 24),
        "C09" => (1, 3),
        "C16" => (24, 160),
        _ => (32, 256),
    };
    match tier {
        Tier::Quick => q,
        Tier::Thorough => t,
    }
}

/// Replay one recorded case (bypasses proptest).
pub fn replay(ctx: &Ctx, subj: &dyn DynSubject, ty: &Ty, r: &Value, rep: &mut Report) {
    if r.get("subject").and_then(|s| s.as_str()) != Some(subj.name()) {
        return;
    }
    let Some(v) = r.get("val").and_then(|v| serde_json::from_value::<Val>(v.clone()).ok()) else {
        rep.notes.push("replay file has no value; running the whole subject".into());
        if let Some(check) = lookup(&ctx.prop) {
            check(ctx, subj, ty, rep);
        }
        return;
    };
    // run the ordinary check with a constant strategy
    let check = lookup(&ctx.prop).expect("property");
    let ctx2 = Ctx {
        u: ctx.u,
        model: vmodel::format::Model::new(ctx.u, ctx.model.layouts),
        units: ctx.units,
        tier: ctx.tier,
        seed: ctx.seed,
        prop: ctx.prop.clone(),
        cases: 1,
        tmp: ctx.tmp.clone(),
        known: ctx.known,
    };
    REPLAY_VAL.with(|c| *c.borrow_mut() = Some(v));
    check(&ctx2, subj, ty, rep);
    REPLAY_VAL.with(|c| *c.borrow_mut() = None);
}

/// Set by the fuzz targets: per-input work is kept small (no file-backed entry points, fewer cut points).
pub static LIGHT: std::sync::atomic::AtomicBool = std::sync::atomic::AtomicBool::new(false);

pub fn light() -> bool {
    LIGHT.load(std::sync::atomic::Ordering::Relaxed)
}

thread_local! {
    pub static REPLAY_VAL: std::cell::RefCell<Option<Val>> = const { std::cell::RefCell::new(None) };
}

/// Strategy for a subject's values; a replayed value overrides generation.
pub fn strategy_for(ctx: &Ctx, ty: &Ty, cfg: vmodel::val::GenCfg) -> proptest::strategy::BoxedStrategy<Val> {
    use proptest::strategy::Strategy;
    if let Some(v) = REPLAY_VAL.with(|c| c.borrow().clone()) {
        return proptest::strategy::Just(v).boxed();
    }
    vmodel::val::val_strategy(ctx.u, ty, cfg)
}

pub fn err_name(e: &deser::Error) -> String {
    let s = format!("{:?}", e);
    s.split(|c: char| !c.is_alphanumeric()).next().unwrap_or("").to_string()
}

/// Strip line numbers / values from a panic message so that signatures are stable.
pub fn panic_class(p: &str) -> String {
    let (msg, loc) = p.rsplit_once(" @ ").unwrap_or((p, ""));
    let file = loc.rsplit_once(':').map(|x| x.0).unwrap_or(loc);
    let file = file.rsplit('/').take(2).collect::<Vec<_>>().into_iter().rev().collect::<Vec<_>>().join("/");
    let msg: String = msg.chars().map(|c| if c.is_ascii_digit() { '#' } else { c }).collect();
    let mut short = msg;
    while short.contains("##") {
        short = short.replace("##", "#");
    }
    let short: String = short.chars().take(60).collect();
    format!("{} [{}]", short, file)
}

/// Serialize through the plain API into a fresh vector.
pub fn ser_bytes(subj: &dyn DynSubject, v: &Val) -> Result<(Vec<u8>, usize), Fail> {
    let mut out: Vec<u8> = Vec::new();
    match guard(|| subj.ser(v, &mut out)) {
        Err(p) => Err(Fail::new(&format!("ser-panic:{}", panic_class(&p)), format!("serialization panicked: {}", p))),
        Ok(Err(e)) => Err(Fail::new("ser-error", format!("serialization into a Vec failed: {:?}", e))),
        Ok(Ok(n)) => Ok((out, n)),
    }
}

pub fn self_check(subj: &dyn DynSubject, v: &Val) -> Result<(), Fail> {
    match guard(|| subj.self_check(v)) {
        Ok(true) => Ok(()),
        Ok(false) => Err(Fail::new("harness:self-check", "harness conversion bug: full_to_val(build(v)) != v")),
        Err(p) => Err(Fail::new("harness:self-check-panic", format!("harness conversion panicked: {}", p))),
    }
}

pub fn full_of(subj: &dyn DynSubject, bytes: &[u8]) -> Result<deser::Result<Val>, String> {
    guard(|| subj.full(&mut std::io::Cursor::new(bytes)))
}

pub fn model_enc(ctx: &Ctx, subj: &dyn DynSubject, ty: &Ty, v: &Val) -> Result<Encoded, Fail> {
    guard(|| ctx.model.encode(ty, v, subj.std_type_name())).map_err(|p| Fail::new("harness:model-panic", format!("reference encoder panicked: {}", p)))
}

/// Reference encoding whose positions are only used when the real stream has the prescribed length;
/// otherwise (a format discrepancy, which C06 reports) position-dependent information is dropped so
/// that the other checks neither panic nor mis-attribute.
pub fn model_enc_fit(ctx: &Ctx, subj: &dyn DynSubject, ty: &Ty, v: &Val, real_len: usize, log: &mut CaseLog) -> Result<Encoded, Fail> {
    let mut e = model_enc(ctx, subj, ty, v)?;
    if e.bytes.len() != real_len {
        log.classes.push("stream-length-differs-from-format".into());
        e.mask = vec![true; real_len];
        e.bytes.resize(real_len, 0);
        e.header_len = e.header_len.min(real_len);
        e.tags.clear();
        e.lens.clear();
        e.blocks.clear();
        e.boundaries.retain(|b| *b < real_len);
    }
    Ok(e)
}

pub fn classify(ctx: &Ctx, ty: &Ty, v: &Val, log: &mut CaseLog) -> vmodel::val::Shape {
    let s = shape(ctx.u, ty, v);
    if s.nonempty_seq {
        log.classes.push("has-nonempty-seq".into());
    }
    if s.empty_seq {
        log.classes.push("has-empty-seq".into());
    }
    if s.has_tag {
        log.classes.push("has-tag".into());
    }
    if s.nonfirst_variant {
        log.classes.push("nonfirst-variant".into());
    }
    log.classes.push(format!("depth-{}", s.depth.min(6)));
    s
}

pub fn sample_json(subj: &dyn DynSubject, v: &Val, bytes: Option<&[u8]>, extra: Value) -> Value {
    json!({
        "subject": subj.name(),
        "value": v.show(),
        "stream_len": bytes.map(|b| b.len()),
        "first_bytes": bytes.map(|b| b.iter().take(48).map(|x| format!("{:02x}", x)).collect::<String>()),
        "env": extra,
    })
}

/// Whether `/dev/full` is the character device it should be (code under test that renames a file over its
/// destination can replace the node by a regular file when the harness runs as root; the checks that rely on the
/// device then say so instead of reporting nonsense).
pub fn dev_full_ok() -> bool {
    use std::os::unix::fs::FileTypeExt;
    std::fs::metadata("/dev/full").map_or(false, |m| m.file_type().is_char_device())
}

/// Restore `/dev/full` if a store replaced the device node (best effort, needs CAP_MKNOD).
pub fn repair_dev_full() {
    if !dev_full_ok() {
        let _ = std::fs::remove_file("/dev/full");
        let c = std::ffi::CString::new("/dev/full").unwrap();
        unsafe {
            libc::mknod(c.as_ptr(), libc::S_IFCHR | 0o666, libc::makedev(1, 7));
            libc::chmod(c.as_ptr(), 0o666);
        }
    }
}

/// The value being replayed, if this process replays a saved failure.
pub fn replay_val() -> Option<Val> {
    REPLAY_VAL.with(|c| c.borrow().clone())
}

/// Attach `n` bytes of generated entropy to a value strategy: the case becomes
/// `Rec([value, P(entropy)])`, so that environment choices shrink and replay with the value.
pub fn with_entropy(s: proptest::strategy::BoxedStrategy<Val>, n: usize) -> proptest::strategy::BoxedStrategy<Val> {
    use proptest::prelude::*;
    if REPLAY_VAL.with(|c| c.borrow().is_some()) {
        return s;
    }
    (s, proptest::collection::vec(any::<u8>(), n..=n)).prop_map(|(v, e)| Val::Rec(vec![v, Val::P(e)])).boxed()
}

pub fn split_entropy(case: &Val) -> (&Val, &[u8]) {
    match case {
        Val::Rec(x) if x.len() == 2 && matches!(x[1], Val::P(_)) => (&x[0], x[1].bytes()),
        _ => panic!("case without entropy"),
    }
}

/// Deterministic picks from entropy bytes.
pub struct Ent<'a> {
    b: &'a [u8],
    i: usize,
}

impl<'a> Ent<'a> {
    pub fn new(b: &'a [u8]) -> Self {
        Ent { b, i: 0 }
    }
    pub fn byte(&mut self) -> u8 {
        let x = if self.b.is_empty() { 0 } else { self.b[self.i % self.b.len()] };
        self.i += 1;
        x
    }
    pub fn u64(&mut self) -> u64 {
        let mut x = 0u64;
        for _ in 0..8 {
            x = (x << 8) | self.byte() as u64;
        }
        x
    }
    /// monotone pick in 0..n
    pub fn pick(&mut self, n: usize) -> usize {
        if n <= 1 {
            return 0;
        }
        let x = ((self.byte() as u64) << 8 | self.byte() as u64) as usize;
        (x * n) >> 16
    }
}

pub fn hash_sub(subj: &str, v: &Val, tag: &str, a: u64, b: u64) -> u64 {
    crate::report::hash_case(&[subj, tag], v, a.wrapping_mul(0x9e3779b97f4a7c15) ^ b)
}

/// Compare two streams of the same value ignoring compiler padding inside zero-copy blocks.
pub fn same_masked(enc: &Encoded, a: &[u8], b: &[u8]) -> bool {
    a.len() == b.len() && a.len() <= enc.mask.len() && (0..a.len()).all(|i| !enc.mask[i] || a[i] == b[i])
}

/// `a` is a prefix of `full` modulo masked bytes.
pub fn prefix_masked(enc: &Encoded, a: &[u8], full: &[u8]) -> bool {
    a.len() <= full.len() && (0..a.len()).all(|i| !enc.mask.get(i).copied().unwrap_or(true) || a[i] == full[i])
}

/// Messages of panics that are bounds checks: the wording of the standard library's slice checks, and the usual
/// wordings of a hand-written check that the requested bytes are available (a change of message in the code
/// under test must not turn a refusal into an alarm; whether bytes outside the prefix are read is decided by the
/// release-like and AddressSanitizer builds, not by the text of the panic).
pub const BOUNDS_PANICS: [&str; 11] = ["range end index", "range start index", "index out of bounds", "out of range for slice", "slice index starts at", "not enough data", "not enough bytes", "out of bounds", "too short", "mid > len", "unexpected end"];

pub fn is_bounds_panic(p: &str) -> bool {
    BOUNDS_PANICS.iter().any(|m| p.contains(m)) && p.contains("epserde/src/")
}

/// Deterministic sweep of the preceding-content length for the `Pre<A, B>` / `PreFull<B>` wrappers of the
/// "extra" universe: field `a` takes every length 0..=130, so that the block that follows starts at every
/// residue of its alignment unit (up to 64). Empty for every other subject, and when replaying.
pub fn sweep_vals(ctx: &Ctx, ty: &Ty) -> Vec<Val> {
    use vmodel::ty::Arg;
    if REPLAY_VAL.with(|c| c.borrow().is_some()) {
        return vec![];
    }
    let Ty::Adt(i, args) = ty else { return vec![] };
    let def = &ctx.u.adts[*i];
    if ctx.u.label == "extra" && (def.name == "G1" || def.name == "Tail") {
        // payloads of more than a mebibyte (and exactly one mebibyte) for the three designated subjects
        let big = |elem: Val, n: usize| Val::Seq(vec![elem; n]);
        let payloads: Vec<Val> = match args.first() {
            Some(Arg::Ty(Ty::Vec(e))) if **e == Ty::Prim(vmodel::ty::Prim::U64) => {
                let x = Val::P(0x0102_0304_0506_0708u64.to_ne_bytes().to_vec());
                vec![big(x.clone(), 131_072), big(x, 140_001)]
            }
            Some(Arg::Ty(Ty::BoxSlice(e))) if **e == Ty::Prim(vmodel::ty::Prim::U32) => {
                let x = Val::P(0xA1B2_C3D4u32.to_ne_bytes().to_vec());
                vec![big(x, 300_007)]
            }
            Some(Arg::Ty(Ty::String)) => vec![Val::Str("0123456789abcdef".repeat(65_536)), Val::Str("épsilon-serde ".repeat(110_000))],
            // counts rather than bytes: more than 2^16 deep-copy items, with alignment padding inside the items
            Some(Arg::Ty(Ty::Vec(e))) if **e == Ty::opt(Ty::vec(Ty::Prim(vmodel::ty::Prim::U32))) => {
                vec![Val::Seq((0..65_541u32).map(|i| if i % 5 == 4 { Val::Var(0, vec![]) } else { Val::Var(1, vec![Val::Seq(vec![Val::P(i.to_ne_bytes().to_vec()); (i % 3) as usize])]) }).collect())]
            }
            Some(Arg::Ty(Ty::Vec(e))) if **e == Ty::String => vec![Val::Seq((0..65_537u32).map(|i| Val::Str(format!("s{}", i % 977))).collect())],
            _ => vec![],
        };
        let base = vmodel::val::min_val(ctx.u, ty);
        return payloads
            .into_iter()
            .map(|pl| {
                let mut f = base.seq().to_vec();
                f[0] = pl;
                if f.len() > 1 {
                    // make the fields after the payload non-trivial
                    for x in f.iter_mut().skip(1) {
                        if let Val::P(b) = x {
                            for (k, y) in b.iter_mut().enumerate() {
                                *y = 0x11 * (k as u8 + 1);
                            }
                        }
                    }
                }
                Val::Rec(f)
            })
            .collect();
    }
    if def.name != "Pre" && def.name != "PreFull" {
        return vec![];
    }
    let fields = ctx.u.inst_fields(*i, args, 0);
    // a representative non-trivial value for the other fields
    let strat = vmodel::val::val_strategy(ctx.u, ty, vmodel::val::GenCfg { max_len: 3, long: false });
    let base = crate::runner::sample_vals(ctx, &["sweep", &def.name], &strat, 2);
    let mut out = vec![];
    for (bi, b) in base.iter().enumerate() {
        let step = if bi == 0 { 1 } else { 7 };
        for n in (0..=130usize).step_by(step) {
            let mut f = b.seq().to_vec();
            f[0] = match &fields[0] {
                Ty::String | Ty::BoxStr => Val::Str("x".repeat(n)),
                Ty::Vec(e) | Ty::BoxSlice(e) => Val::Seq(vec![vmodel::val::min_val(ctx.u, e); n]),
                _ => return vec![],
            };
            out.push(Val::Rec(f));
        }
    }
    out
}
