//! Oracles and instrumentation of the verification harness. Generic over `Subject`
//! (implemented by generated code for every closed type under test); property checks are written
//! once against the object-safe `DynSubject`.

pub mod alloc;
pub mod audit;
pub mod checks;
pub mod faults;
pub mod report;
pub mod runner;
pub mod seq;
pub mod trace;

use epserde::deser::{self, Deserialize, DeserializeInner, ReadWithPos, SliceWithPos};
use epserde::ser::{self, Serialize, SerializeInner};
use epserde::traits::{AlignHash, TypeHash};
use std::hash::Hasher;
use std::io::{Read, Write};
use std::marker::PhantomData;
use vmodel::borrows::{Borrow, Borrows};
use vmodel::val::Val;

pub use trace::Event;

/// Implemented by generated code for each closed type under test.
pub trait Subject: 'static {
    type T: Serialize + SerializeInner + Deserialize + TypeHash + AlignHash + 'static;
    const NAME: &'static str;
    const INDEX: usize;
    fn build(v: &Val) -> Self::T;
    fn full_to_val(x: &Self::T) -> Val;
    fn eps_to_val<'a>(x: &<Self::T as DeserializeInner>::DeserType<'a>, s: &mut Borrows) -> Val;
    /// `TypeId` of the real ε-copy type equals that of the model's documented substitution.
    fn deser_type_is_documented() -> bool;
    fn ser_type_is_self() -> bool;
    /// Layouts of types that cannot be named outside the block they are defined in (twin subjects).
    fn extra_layouts(_l: &mut vmodel::format::Layouts, _units: &mut std::collections::BTreeMap<String, usize>) {}
}

pub struct EpsOut {
    pub val: Val,
    pub borrows: Vec<Borrow>,
    /// allocations performed by the `deserialize_eps` call itself (conversions excluded)
    pub allocs: alloc::AllocStats,
}

pub struct SrcReport {
    /// the source value still converts to the model value it was built from
    pub intact: bool,
    /// number of frees, during the call, of blocks that existed before it (suppressed)
    pub foreign_frees: u64,
}

#[derive(Clone, Copy, Debug, PartialEq, Eq)]
pub enum Loader {
    LoadFull,
    LoadMem,
    LoadMmap,
    Mmap,
}

#[derive(Clone, Copy, Debug, PartialEq, Eq)]
pub enum Script {
    Direct,
    Boxed,
    ThroughVec,
    SendToThread,
    SharedThreads,
    DropElsewhere,
    /// after loading, every byte of the file is overwritten in place (the file is made writable first); the
    /// structure is read afterwards: a loader that copies must have kept a private copy
    OverwriteAfterLoad,
}

pub struct LoadOut {
    pub val: Val,
    pub borrows: Vec<Borrow>,
    /// backing region (address, length) when the hook is compiled in and the loader has one
    pub region: Option<(usize, usize)>,
    /// bytes of the region after the file's length are all zero
    pub tail_zero: Option<bool>,
    /// the first `file_len` bytes of the region equal the file
    pub prefix_is_file: Option<bool>,
    /// heap allocations made by the library's loader call itself (not by the harness)
    pub lib_allocs: alloc::AllocStats,
}

/// Object-safe view of a subject.
pub trait DynSubject: Send + Sync {
    fn name(&self) -> &'static str;
    fn index(&self) -> usize;
    fn std_type_name(&self) -> &'static str;
    fn self_check(&self, v: &Val) -> bool;
    fn ser(&self, v: &Val, w: &mut dyn Write) -> ser::Result<usize>;
    fn ser_src_check(&self, v: &Val, w: &mut dyn Write) -> (ser::Result<usize>, SrcReport);
    fn ser_traced(&self, v: &Val, w: &mut dyn Write) -> (ser::Result<()>, Vec<Event>);
    fn ser_schema(&self, v: &Val, w: &mut dyn Write) -> ser::Result<epserde::ser::Schema>;
    /// `prefix` is written through a `WriterWithPos` first; then the value is written on the same writer,
    /// through a `SchemaWriter` layered on it (`with_schema`) or directly. Returns the schema, if recorded.
    fn ser_after_prefix(&self, v: &Val, prefix: &[u8], with_schema: bool, w: &mut dyn Write) -> ser::Result<Option<epserde::ser::Schema>>;
    fn full(&self, r: &mut dyn Read) -> deser::Result<Val>;
    fn eps(&self, buf: &[u8]) -> deser::Result<EpsOut>;
    /// bytes consumed by header check + ε-copy inner deserialization
    fn eps_consumed(&self, buf: &[u8]) -> deser::Result<usize>;
    fn hashes(&self) -> (u64, u64);
    fn deser_type_is_documented(&self) -> bool;
    fn ser_type_is_self(&self) -> bool;
    fn store(&self, v: &Val, path: &std::path::Path) -> ser::Result<()>;
    fn load(&self, loader: Loader, path: &std::path::Path, flags: u32, script: Script) -> anyhow::Result<LoadOut>;
    /// `MemCase::encase` / `From` of an in-memory value: the case dereferences to the value, owns no region,
    /// survives a move to another thread (if the type allows) and a boxed move. `Err` describes what differs.
    fn encase(&self, v: &Val) -> Result<(), String>;
}

pub struct Wrap<S: Subject>(PhantomData<fn() -> S>);

pub fn wrap<S: Subject>() -> Box<dyn DynSubject>
where
    <S::T as DeserializeInner>::DeserType<'static>: Send + Sync,
{
    Box::new(Wrap::<S>(PhantomData))
}

fn memcase_out<S: Subject>(case: &epserde::deser::MemCase<<S::T as DeserializeInner>::DeserType<'static>>, file: &[u8]) -> LoadOut {
    let mut b = Borrows::default();
    let val = S::eps_to_val(&**case, &mut b);
    #[cfg(epserde_verif)]
    {
        let bytes = case.verif_backend_bytes();
        let region = bytes.map(|r| (r.as_ptr() as usize, r.len()));
        let tail_zero = bytes.map(|r| r.len() >= file.len() && r[file.len()..].iter().all(|x| *x == 0));
        let prefix_is_file = bytes.map(|r| r.len() >= file.len() && &r[..file.len()] == file);
        LoadOut { val, borrows: b.0, region, tail_zero, prefix_is_file, lib_allocs: Default::default() }
    }
    #[cfg(not(epserde_verif))]
    {
        let _ = file;
        LoadOut { val, borrows: b.0, region: None, tail_zero: None, prefix_is_file: None, lib_allocs: Default::default() }
    }
}

impl<S: Subject> DynSubject for Wrap<S>
where
    <S::T as DeserializeInner>::DeserType<'static>: Send + Sync,
{
    fn name(&self) -> &'static str {
        S::NAME
    }
    fn index(&self) -> usize {
        S::INDEX
    }
    fn std_type_name(&self) -> &'static str {
        core::any::type_name::<S::T>()
    }
    fn self_check(&self, v: &Val) -> bool {
        let t = S::build(v);
        S::full_to_val(&t) == *v
    }
    fn ser(&self, v: &Val, mut w: &mut dyn Write) -> ser::Result<usize> {
        let t = S::build(v);
        t.serialize(&mut w)
    }
    fn ser_src_check(&self, v: &Val, mut w: &mut dyn Write) -> (ser::Result<usize>, SrcReport) {
        let t = S::build(v);
        let (r, foreign_frees) = alloc::protected(|| t.serialize(&mut w));
        let intact = S::full_to_val(&t) == *v;
        drop(t);
        (r, SrcReport { intact, foreign_frees })
    }
    fn ser_traced(&self, v: &Val, mut w: &mut dyn Write) -> (ser::Result<()>, Vec<Event>) {
        let t = S::build(v);
        let mut tr = trace::Tracer::new(&mut w);
        let r = t.serialize_on_field_write(&mut tr);
        (r, tr.events)
    }
    fn ser_schema(&self, v: &Val, mut w: &mut dyn Write) -> ser::Result<epserde::ser::Schema> {
        let t = S::build(v);
        t.serialize_with_schema(&mut w)
    }
    fn ser_after_prefix(&self, v: &Val, prefix: &[u8], with_schema: bool, mut w: &mut dyn Write) -> ser::Result<Option<epserde::ser::Schema>> {
        use epserde::ser::{SchemaWriter, WriteNoStd, WriterWithPos};
        let t = S::build(v);
        let mut wp = WriterWithPos::new(&mut w);
        wp.write_all(prefix)?;
        if with_schema {
            let mut sw = SchemaWriter::new(&mut wp);
            t.serialize_on_field_write(&mut sw)?;
            Ok(Some(sw.schema))
        } else {
            t.serialize_on_field_write(&mut wp)?;
            Ok(None)
        }
    }
    fn full(&self, mut r: &mut dyn Read) -> deser::Result<Val> {
        let t = <S::T as Deserialize>::deserialize_full(&mut r)?;
        Ok(S::full_to_val(&t))
    }
    fn eps(&self, buf: &[u8]) -> deser::Result<EpsOut> {
        let (r, allocs) = alloc::count(|| <S::T as Deserialize>::deserialize_eps(buf));
        let e = r?;
        let mut b = Borrows::default();
        let val = S::eps_to_val(&e, &mut b);
        Ok(EpsOut { val, borrows: b.0, allocs })
    }
    fn eps_consumed(&self, buf: &[u8]) -> deser::Result<usize> {
        let mut backend = SliceWithPos::new(buf);
        deser::check_header::<S::T>(&mut backend)?;
        let _e = <S::T as DeserializeInner>::_deserialize_eps_inner(&mut backend)?;
        Ok(backend.pos())
    }
    fn hashes(&self) -> (u64, u64) {
        let mut h = xxhash_rust::xxh3::Xxh3::new();
        <S::T as TypeHash>::type_hash(&mut h);
        let mut a = xxhash_rust::xxh3::Xxh3::new();
        let mut off = 0usize;
        <S::T as AlignHash>::align_hash(&mut a, &mut off);
        (h.finish(), a.finish())
    }
    fn deser_type_is_documented(&self) -> bool {
        S::deser_type_is_documented()
    }
    fn ser_type_is_self(&self) -> bool {
        S::ser_type_is_self()
    }
    fn store(&self, v: &Val, path: &std::path::Path) -> ser::Result<()> {
        let t = S::build(v);
        t.store(path)
    }
    fn load(&self, loader: Loader, path: &std::path::Path, flags: u32, script: Script) -> anyhow::Result<LoadOut> {
        let _ = flags;
        match loader {
            Loader::LoadFull => {
                let t = <S::T as Deserialize>::load_full(path)?;
                let t = match script {
                    Script::Boxed => *Box::new(t),
                    _ => t,
                };
                Ok(LoadOut { val: S::full_to_val(&t), borrows: vec![], region: None, tail_zero: None, prefix_is_file: None, lib_allocs: Default::default() })
            }
            _ => {
                // contents for the region checks; a path that cannot be read (missing, a directory) must still
                // reach the loader under test
                let file = std::fs::read(path).unwrap_or_default();
                let file = &file[..];
                let (case, lib_allocs) = alloc::count(|| -> anyhow::Result<epserde::deser::MemCase<<S::T as DeserializeInner>::DeserType<'static>>> {
                    Ok(match loader {
                        Loader::LoadMem => <S::T as Deserialize>::load_mem(path)?,
                        #[cfg(feature = "mmap")]
                        Loader::LoadMmap => <S::T as Deserialize>::load_mmap(path, epserde::deser::Flags::from_bits_truncate(flags))?,
                        #[cfg(feature = "mmap")]
                        Loader::Mmap => <S::T as Deserialize>::mmap(path, epserde::deser::Flags::from_bits_truncate(flags))?,
                        #[cfg(not(feature = "mmap"))]
                        _ => anyhow::bail!("loader not available without the mmap feature"),
                        #[cfg(feature = "mmap")]
                        Loader::LoadFull => unreachable!(),
                    })
                });
                let case = case?;
                let with_allocs = |mut o: LoadOut| {
                    o.lib_allocs = lib_allocs;
                    o
                };
                let out: anyhow::Result<LoadOut> = match script {
                    Script::OverwriteAfterLoad => {
                        use std::io::{Seek, Write};
                        use std::os::unix::fs::PermissionsExt;
                        let _ = std::fs::set_permissions(path, std::fs::Permissions::from_mode(0o644));
                        let mut f = std::fs::OpenOptions::new().write(true).open(path)?;
                        f.seek(std::io::SeekFrom::Start(0))?;
                        f.write_all(&vec![0xFFu8; file.len()])?;
                        f.sync_all()?;
                        drop(f);
                        Ok(memcase_out::<S>(&case, file))
                    }
                    Script::Direct => Ok(memcase_out::<S>(&case, file)),
                    Script::Boxed => {
                        let b = Box::new(case);
                        Ok(memcase_out::<S>(&b, file))
                    }
                    Script::ThroughVec => {
                        let mut v = Vec::new();
                        v.push(case);
                        for _ in 0..8 {
                            let c = v.pop().unwrap();
                            v.reserve(64);
                            v.push(c);
                        }
                        let c = v.pop().unwrap();
                        Ok(memcase_out::<S>(&c, file))
                    }
                    Script::SendToThread => {
                        let (tx, rx) = std::sync::mpsc::channel();
                        tx.send(case).unwrap();
                        let owned = file.to_vec();
                        let h = std::thread::spawn(move || {
                            let c = rx.recv().unwrap();
                            memcase_out::<S>(&c, &owned)
                        });
                        h.join().map_err(|_| anyhow::anyhow!("receiver thread panicked"))
                    }
                    Script::SharedThreads => {
                        let first = memcase_out::<S>(&case, file);
                        let outs: Vec<LoadOut> = std::thread::scope(|sc| {
                            let hs: Vec<_> = (0..4).map(|_| sc.spawn(|| memcase_out::<S>(&case, file))).collect();
                            hs.into_iter().map(|h| h.join().unwrap()).collect()
                        });
                        for o in &outs {
                            if o.val != first.val || o.borrows != first.borrows {
                                anyhow::bail!("concurrent readers of a shared MemCase disagree");
                            }
                        }
                        Ok(first)
                    }
                    Script::DropElsewhere => {
                        let out = memcase_out::<S>(&case, file);
                        std::thread::spawn(move || drop(case)).join().map_err(|_| anyhow::anyhow!("dropping thread panicked"))?;
                        Ok(out)
                    }
                };
                out.map(with_allocs)
            }
        }
    }
    fn encase(&self, v: &Val) -> Result<(), String> {
        let a = epserde::deser::MemCase::encase(S::build(v));
        if S::full_to_val(&*a) != *v {
            return Err("the structure behind MemCase::encase differs from the encased one".into());
        }
        let b = epserde::deser::MemCase::encase(S::build(v));
        if S::full_to_val(b.as_ref()) != *v {
            return Err("the structure reached through AsRef of an encased value differs from it".into());
        }
        #[cfg(epserde_verif)]
        if a.verif_backend_bytes().is_some() || b.verif_backend_bytes().is_some() {
            return Err("an encased in-memory structure claims a backing region".into());
        }
        let boxed = Box::new(a);
        let moved = *boxed;
        if S::full_to_val(&*moved) != *v {
            return Err("the encased structure changed when the case was moved through a Box".into());
        }
        Ok(())
    }
}

/// `ReadWithPos` needs to be in scope for `.pos()` on `SliceWithPos`.
#[allow(dead_code)]
fn _uses(_: &dyn Fn(&SliceWithPos) -> usize) {}
#[allow(dead_code)]
fn _pos(b: &SliceWithPos) -> usize {
    ReadWithPos::pos(b)
}
