//! Tracking global allocator (wraps `System`).
//!
//! * thread-local call/byte counters (C03 allocation law),
//! * process-wide live-byte counter (C09 leak measurements),
//! * thread-local "protected epoch": while active, a `dealloc`/`realloc` of a block that was not
//!   allocated during the epoch on this thread is *recorded and not performed* (C13/C14: the
//!   serializer must not free memory that existed before the call).
//!
//! Compiled out (feature `track_alloc` off) in sanitizer builds so ASan sees raw behaviour.

use std::alloc::{GlobalAlloc, Layout, System};
use std::cell::{Cell, RefCell};
use std::sync::atomic::{AtomicI64, AtomicU64, Ordering};

pub struct Tracking;

pub static LIVE_BYTES: AtomicI64 = AtomicI64::new(0);
pub static TOTAL_ALLOCS: AtomicU64 = AtomicU64::new(0);

thread_local! {
    static COUNTING: Cell<bool> = const { Cell::new(false) };
    static CALLS: Cell<u64> = const { Cell::new(0) };
    static BYTES: Cell<u64> = const { Cell::new(0) };
    static EPOCH: Cell<bool> = const { Cell::new(false) };
    static IN_TRACKER: Cell<bool> = const { Cell::new(false) };
    static FOREIGN_FREES: Cell<u64> = const { Cell::new(0) };
    static EPOCH_PTRS: RefCell<std::collections::BTreeSet<usize>> = const { RefCell::new(std::collections::BTreeSet::new()) };
}

#[derive(Clone, Copy, Debug, Default, PartialEq, Eq)]
pub struct AllocStats {
    pub calls: u64,
    pub bytes: u64,
}

/// Count allocations made by `f` on the current thread.
pub fn count<R>(f: impl FnOnce() -> R) -> (R, AllocStats) {
    let prev = COUNTING.with(|c| c.replace(true));
    let c0 = CALLS.with(|c| c.get());
    let b0 = BYTES.with(|c| c.get());
    let r = f();
    let s = AllocStats { calls: CALLS.with(|c| c.get()) - c0, bytes: BYTES.with(|c| c.get()) - b0 };
    COUNTING.with(|c| c.set(prev));
    (r, s)
}

/// Run `f` in a protected epoch; returns the number of frees of blocks that pre-existed the epoch
/// (each such free was suppressed).
pub fn protected<R>(f: impl FnOnce() -> R) -> (R, u64) {
    if !cfg!(feature = "track_alloc") {
        return (f(), 0);
    }
    FOREIGN_FREES.with(|c| c.set(0));
    with_tracker(|| EPOCH_PTRS.with(|p| p.borrow_mut().clear()));
    EPOCH.with(|c| c.set(true));
    struct Reset;
    impl Drop for Reset {
        fn drop(&mut self) {
            EPOCH.with(|c| c.set(false));
        }
    }
    let guard = Reset;
    let r = f();
    drop(guard);
    let n = FOREIGN_FREES.with(|c| c.get());
    with_tracker(|| EPOCH_PTRS.with(|p| p.borrow_mut().clear()));
    (r, n)
}

pub fn live_bytes() -> i64 {
    LIVE_BYTES.load(Ordering::SeqCst)
}

pub fn enabled() -> bool {
    cfg!(feature = "track_alloc")
}

fn with_tracker<R>(f: impl FnOnce() -> R) -> R {
    let prev = IN_TRACKER.with(|c| c.replace(true));
    let r = f();
    IN_TRACKER.with(|c| c.set(prev));
    r
}

fn in_tracker() -> bool {
    IN_TRACKER.try_with(|c| c.get()).unwrap_or(true)
}

fn note_alloc(ptr: *mut u8, size: usize) {
    if ptr.is_null() {
        return;
    }
    LIVE_BYTES.fetch_add(size as i64, Ordering::Relaxed);
    TOTAL_ALLOCS.fetch_add(1, Ordering::Relaxed);
    if in_tracker() {
        return;
    }
    let _ = COUNTING.try_with(|c| {
        if c.get() {
            CALLS.with(|x| x.set(x.get() + 1));
            BYTES.with(|x| x.set(x.get() + size as u64));
        }
    });
    if EPOCH.try_with(|c| c.get()).unwrap_or(false) {
        with_tracker(|| EPOCH_PTRS.with(|p| { p.borrow_mut().insert(ptr as usize); }));
    }
}

/// returns false when the free must be suppressed
fn note_free(ptr: *mut u8, size: usize) -> bool {
    if !in_tracker() && EPOCH.try_with(|c| c.get()).unwrap_or(false) {
        let found = with_tracker(|| {
            EPOCH_PTRS.with(|p| {
                p.borrow_mut().remove(&(ptr as usize))
            })
        });
        if !found {
            FOREIGN_FREES.with(|c| c.set(c.get() + 1));
            return false;
        }
    }
    LIVE_BYTES.fetch_sub(size as i64, Ordering::Relaxed);
    true
}

unsafe impl GlobalAlloc for Tracking {
    unsafe fn alloc(&self, layout: Layout) -> *mut u8 {
        let p = System.alloc(layout);
        note_alloc(p, layout.size());
        p
    }
    unsafe fn alloc_zeroed(&self, layout: Layout) -> *mut u8 {
        let p = System.alloc_zeroed(layout);
        note_alloc(p, layout.size());
        p
    }
    unsafe fn dealloc(&self, ptr: *mut u8, layout: Layout) {
        if note_free(ptr, layout.size()) {
            System.dealloc(ptr, layout);
        }
    }
    unsafe fn realloc(&self, ptr: *mut u8, layout: Layout, new_size: usize) -> *mut u8 {
        if note_free(ptr, layout.size()) {
            let p = System.realloc(ptr, layout, new_size);
            if p.is_null() {
                // the old block is still live
                LIVE_BYTES.fetch_add(layout.size() as i64, Ordering::Relaxed);
            } else {
                note_alloc(p, new_size);
            }
            p
        } else {
            // foreign block during a protected epoch: emulate by allocating a copy, leaving the old block alone
            let new_layout = Layout::from_size_align_unchecked(new_size, layout.align());
            let p = System.alloc(new_layout);
            if !p.is_null() {
                core::ptr::copy_nonoverlapping(ptr, p, layout.size().min(new_size));
                note_alloc(p, new_size);
            }
            p
        }
    }
}

#[cfg(feature = "track_alloc")]
#[global_allocator]
static GLOBAL: Tracking = Tracking;
