//! Observation point for user types whose `Drop` reads the data they hold (C09: the backing memory must
//! outlive every safe use, including a destructor of the loaded structure). Process-wide counters: the
//! C09 run-time check is sequential.

use std::sync::atomic::{AtomicU64, Ordering};

static SUM: AtomicU64 = AtomicU64::new(0);
static DROPS: AtomicU64 = AtomicU64::new(0);

pub fn checksum(data: &[u64]) -> u64 {
    let mut s = 0u64;
    for x in data {
        s = s.wrapping_mul(31).wrapping_add(*x);
    }
    s
}

pub fn record(data: &[u64]) {
    SUM.fetch_add(checksum(data), Ordering::SeqCst);
    DROPS.fetch_add(1, Ordering::SeqCst);
}

pub fn reset() {
    SUM.store(0, Ordering::SeqCst);
    DROPS.store(0, Ordering::SeqCst);
}

/// (sum of checksums, number of drops) observed since `reset`
pub fn read() -> (u64, u64) {
    (SUM.load(Ordering::SeqCst), DROPS.load(Ordering::SeqCst))
}
