#!/bin/sh
# Offline build of the harness and of the subject programs for the default seed (warms caches).
set -e
cd /verif/harness
export CARGO_NET_OFFLINE=true
mkdir -p /verif/work/tmp /verif/work/out /verif/work/replays /verif/evidence
cargo build -q --offline 2>&1 | tail -5
VERIF_SEED=${VERIF_SEED:-0} /verif/work/target/debug/vcheck build
echo "setup done"
